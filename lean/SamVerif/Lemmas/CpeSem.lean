import SamVerif.Model.CpeSem
/-! Helper lemmas for C01 / K4b: simulations behind constant-parameter elimination. -/
namespace SamVerif.TailRec

/-- The self-call exemption (l.94-104), stated independently: a name counts as read by a self call
iff it is passed in some position that is not its own. -/
theorem mem_selfCallReads_iff (params : List Name) : ∀ (args : List Arg) (x : Name),
    x ∈ selfCallReads params args ↔ ∃ j : Nat, args[j]? = some (Arg.var x) ∧ params[j]? ≠ some x := by
  induction params with
  | nil =>
    intro args x
    cases args with
    | nil => simp [selfCallReads]
    | cons a rest =>
      simp only [selfCallReads, List.mem_filterMap]
      constructor
      · rintro ⟨b, hb, h⟩
        cases b <;> simp at h
        subst h
        obtain ⟨j, hj⟩ := List.getElem?_of_mem hb
        exact ⟨j, hj, by simp⟩
      · rintro ⟨j, h1, _⟩
        exact ⟨Arg.var x, List.mem_of_getElem? h1, rfl⟩
  | cons p ps ih =>
    intro args x
    cases args with
    | nil => simp [selfCallReads]
    | cons a rest =>
      have shift : (∃ j : Nat, rest[j]? = some (Arg.var x) ∧ ps[j]? ≠ some x) →
          ∃ j : Nat, (a :: rest)[j]? = some (Arg.var x) ∧ (p :: ps)[j]? ≠ some x := by
        rintro ⟨j, h1, h2⟩
        exact ⟨j + 1, by simpa using h1, by simpa using h2⟩
      have unshift : ∀ j : Nat, (a :: rest)[j + 1]? = some (Arg.var x) → (p :: ps)[j + 1]? ≠ some x →
          ∃ j : Nat, rest[j]? = some (Arg.var x) ∧ ps[j]? ≠ some x := by
        intro j h1 h2
        exact ⟨j, by simpa using h1, by simpa using h2⟩
      cases a with
      | var y =>
        by_cases hy : y = p
        · subst hy
          simp only [selfCallReads, if_true, ih]
          constructor
          · exact shift
          · rintro ⟨j, h1, h2⟩
            cases j with
            | zero => simp at h1 h2; exact absurd h1 h2
            | succ j => exact unshift j h1 h2
        · simp only [selfCallReads, hy, if_false, List.mem_cons, ih]
          constructor
          · rintro (h1 | h)
            · subst h1
              exact ⟨0, by simp, by simpa using fun h' => hy h'.symm⟩
            · exact shift h
          · rintro ⟨j, h1, h2⟩
            cases j with
            | zero => simp at h1; left; exact h1.symm
            | succ j => right; exact unshift j h1 h2
      | i32 n =>
        simp only [selfCallReads, ih]
        constructor
        · exact shift
        · rintro ⟨j, h1, h2⟩
          cases j with
          | zero => simp at h1
          | succ j => exact unshift j h1 h2
      | i31 n =>
        simp only [selfCallReads, ih]
        constructor
        · exact shift
        · rintro ⟨j, h1, h2⟩
          cases j with
          | zero => simp at h1
          | succ j => exact unshift j h1 h2
      | str n =>
        simp only [selfCallReads, ih]
        constructor
        · exact shift
        · rintro ⟨j, h1, h2⟩
          cases j with
          | zero => simp at h1
          | succ j => exact unshift j h1 h2



end SamVerif.TailRec

namespace SamVerif.CpeSem
open SamVerif.TailRec
open SamVerif.Opt (Op)

/-- Environments that agree everywhere except on `p`. -/
def Agree (p : Name) (e1 e2 : Env) : Prop := ∀ x, x ≠ p → e1 x = e2 x

theorem Agree.upd {p : Name} {e1 e2 : Env} (h : Agree p e1 e2) (x : Name) (v : Int) :
    Agree p (upd e1 x v) (upd e2 x v) := by
  intro y hy
  simp only [TailRec.upd]
  split
  · rfl
  · exact h y hy

theorem eval_agree {p : Name} {e1 e2 : Env} (h : Agree p e1 e2) (e : Expr) (he : e ≠ .var p) :
    e.eval e1 = e.eval e2 := by
  cases e with
  | lit n => rfl
  | var x => exact h x (fun hx => he (by rw [hx]))

theorem bindParams_erase (p : Name) : ∀ (params : List Name) (vals : List Int) (i : Nat),
    params[i]? = some p → params.Nodup →
    Agree p (bindParams params vals) (bindParams (params.eraseIdx i) (vals.eraseIdx i)) := by
  intro params
  induction params with
  | nil => intro vals i h; simp at h
  | cons q qs ih =>
    intro vals i h hnd
    cases vals with
    | nil =>
      intro x _
      cases i <;> simp [bindParams] <;> (cases qs <;> simp [bindParams])
    | cons v vs =>
      cases i with
      | zero =>
        simp at h; subst h
        intro x hx
        simp [bindParams, TailRec.upd, hx]
      | succ k =>
        have hnd' := List.nodup_cons.mp hnd
        have := ih vs k (by simpa using h) hnd'.2
        simp only [List.eraseIdx_cons_succ, bindParams]
        exact this.upd q v

/-- What `Unused` means for a body: `p` is never an operand, never assigned, and a self call passes
it at most in its own position `i`; self calls have `k` arguments. -/
def okUnused (p : Name) (i k : Nat) : CBody → Prop
  | .ret e => e ≠ .var p
  | .bin x _ e1 e2 b => x ≠ p ∧ e1 ≠ .var p ∧ e2 ≠ .var p ∧ okUnused p i k b
  | .print es b => (∀ e ∈ es, e ≠ .var p) ∧ okUnused p i k b
  | .ite c t e => c ≠ .var p ∧ okUnused p i k t ∧ okUnused p i k e
  | .call x args b => x ≠ p ∧ args.length = k ∧
      (∀ (j : Nat), j ≠ i → args[j]? ≠ some (.var p)) ∧ okUnused p i k b

theorem map_erase_agree {p : Name} {e1 e2 : Env} (h : Agree p e1 e2) : ∀ (args : List Expr) (i : Nat),
    (∀ (j : Nat), j ≠ i → args[j]? ≠ some (.var p)) →
    (args.map (Expr.eval e1)).eraseIdx i = (args.eraseIdx i).map (Expr.eval e2) := by
  intro args
  induction args with
  | nil => intro i _; simp
  | cons a rest ih =>
    intro i hj
    cases i with
    | zero =>
      simp only [List.map_cons, List.eraseIdx_cons_zero]
      apply List.map_congr_left
      intro b hb
      obtain ⟨k, hk⟩ := List.getElem?_of_mem hb
      exact eval_agree h b (fun hbp => hj (k + 1) (by omega) (by simpa [hbp] using hk))
    | succ k =>
      simp only [List.map_cons, List.eraseIdx_cons_succ]
      congr 1
      · exact eval_agree h a (fun hap => hj 0 (by omega) (by simp [hap]))
      · exact ih k (fun j hjk => by
          have := hj (j + 1) (by omega)
          simpa using this)

theorem map_agree {p : Name} {e1 e2 : Env} (h : Agree p e1 e2) (es : List Expr)
    (hes : ∀ e ∈ es, e ≠ .var p) : es.map (Expr.eval e1) = es.map (Expr.eval e2) :=
  List.map_congr_left (fun e he => eval_agree h e (hes e he))

/-- Simulation: the function with parameter `i` removed (from the signature and from every self
call) runs exactly like the original, on environments that agree except on `p`. -/
theorem exec_drop (ev : Op → Int → Int → Option Int) (params : List Name) (body : CBody)
    (p : Name) (i : Nat) (hp : params[i]? = some p) (hnd : params.Nodup)
    (hbody : okUnused p i params.length body) :
    ∀ (fuel : Nat) (b : CBody) (e1 e2 : Env) (out : List (List Int)), Agree p e1 e2 →
      okUnused p i params.length b →
      exec ev params body fuel e1 out b =
        exec ev (params.eraseIdx i) (dropArg i body) fuel e2 out (dropArg i b) := by
  intro fuel
  induction fuel with
  | zero =>
    intro b
    induction b with
    | ret e => intro e1 e2 out ha hk; simp [exec, dropArg, eval_agree ha e hk]
    | bin x op a1 a2 k ih =>
      intro e1 e2 out ha hk
      obtain ⟨hx, h1, h2, hk'⟩ := hk
      simp only [exec, dropArg, eval_agree ha a1 h1, eval_agree ha a2 h2]
      split
      · rfl
      · exact ih _ _ _ (ha.upd x _) hk'
    | print es k ih =>
      intro e1 e2 out ha hk
      simp only [exec, dropArg, map_agree ha es hk.1]
      exact ih _ _ _ ha hk.2
    | ite c t e iht ihe =>
      intro e1 e2 out ha hk
      simp only [exec, dropArg, eval_agree ha c hk.1]
      split
      · exact iht _ _ _ ha hk.2.1
      · exact ihe _ _ _ ha hk.2.2
    | call x args k ih => intro e1 e2 out ha hk; simp [exec, dropArg]
  | succ n ihn =>
    intro b
    induction b with
    | ret e => intro e1 e2 out ha hk; simp [exec, dropArg, eval_agree ha e hk]
    | bin x op a1 a2 k ih =>
      intro e1 e2 out ha hk
      obtain ⟨hx, h1, h2, hk'⟩ := hk
      simp only [exec, dropArg, eval_agree ha a1 h1, eval_agree ha a2 h2]
      split
      · rfl
      · exact ih _ _ _ (ha.upd x _) hk'
    | print es k ih =>
      intro e1 e2 out ha hk
      simp only [exec, dropArg, map_agree ha es hk.1]
      exact ih _ _ _ ha hk.2
    | ite c t e iht ihe =>
      intro e1 e2 out ha hk
      simp only [exec, dropArg, eval_agree ha c hk.1]
      split
      · exact iht _ _ _ ha hk.2.1
      · exact ihe _ _ _ ha hk.2.2
    | call x args k ih =>
      intro e1 e2 out ha hk
      obtain ⟨hx, hlen, hj, hk'⟩ := hk
      simp only [exec, dropArg]
      have hvals := map_erase_agree ha args i hj
      have hcallee := ihn body
        (bindParams params (args.map (Expr.eval e1)))
        (bindParams (params.eraseIdx i) ((args.eraseIdx i).map (Expr.eval e2))) out
        (by rw [← hvals]; exact bindParams_erase p params _ i hp hnd) hbody
      rw [hcallee]
      split
      · rfl
      · exact ih _ _ _ (ha.upd x _) hk'



theorem ne_var_of_not_reads (p : Name) (e : Expr) (h : p ∉ exprReads e) : e ≠ .var p := by
  intro he; subst he; simp [exprReads] at h

/-- Names the decision kernel counts as read in a body (cf. `TailRec.localReads`). -/
def readsOf (self : Nat) (params : List Name) (b : CBody) : List Name :=
  (atomsOf self b).flatMap fun a => match a with
    | .read x => [x]
    | .call g args => if g = self then selfCallReads params args else argReads args

theorem localReads_eq (self : Nat) (params : List Name) (b : CBody) :
    localReads { name := self, params := params, atoms := atomsOf self b } = readsOf self params b := rfl

theorem mem_argReads (args : List Expr) (p : Name) :
    p ∈ argReads (args.map exprArg) ↔ Expr.var p ∈ args := by
  simp only [argReads, List.mem_filterMap, List.mem_map]
  constructor
  · rintro ⟨a, ⟨e, he, rfl⟩, h⟩
    cases e with
    | lit n => simp [exprArg] at h
    | var x => simp [exprArg] at h; subst h; exact he
  · intro h
    exact ⟨.var p, ⟨.var p, h, rfl⟩, rfl⟩

/-- The decision `Unused` (plus the MIR's well-formedness) gives the semantic precondition. -/
theorem okUnused_of_reads (self : Nat) (hself : self ≠ 999) (params : List Name) (p : Name) (i : Nat)
    (hp : params[i]? = some p) (hnd : params.Nodup) :
    ∀ (b : CBody), p ∉ readsOf self params b → assigns p b = false →
      callsArity params.length b = true → okUnused p i params.length b := by
  intro b
  induction b with
  | ret e =>
    intro h _ _
    apply ne_var_of_not_reads
    simpa [readsOf, atomsOf, List.flatMap_map] using h
  | bin x op e1 e2 k ih =>
    intro h ha hc
    simp only [readsOf, atomsOf, List.flatMap_append, List.mem_append, not_or] at h
    simp only [assigns, Bool.or_eq_false_iff, beq_eq_false_iff_ne] at ha
    refine ⟨ha.1, ?_, ?_, ih h.2 ha.2 (by simpa [callsArity] using hc)⟩
    · apply ne_var_of_not_reads
      have := h.1
      simp [List.flatMap_map] at this
      intro hm; cases e1 <;> simp_all [exprReads]
    · apply ne_var_of_not_reads
      have := h.1
      simp [List.flatMap_map] at this
      intro hm; cases e2 <;> simp_all [exprReads]
  | print es k ih =>
    intro h ha hc
    simp only [readsOf, atomsOf, List.flatMap_cons, List.mem_append, not_or] at h
    have hne : (999 : Nat) ≠ self := fun h => hself h.symm
    simp only [hne, if_false] at h
    refine ⟨?_, ih h.2 (by simpa [assigns] using ha) (by simpa [callsArity] using hc)⟩
    intro e he hep
    subst hep
    exact h.1 ((mem_argReads es p).mpr he)
  | ite c t e iht ihe =>
    intro h ha hc
    simp only [readsOf, atomsOf, List.flatMap_append, List.mem_append, not_or] at h
    simp only [assigns, Bool.or_eq_false_iff] at ha
    simp only [callsArity, Bool.and_eq_true] at hc
    refine ⟨?_, iht h.1.2 ha.1 hc.1, ihe h.2 ha.2 hc.2⟩
    apply ne_var_of_not_reads
    have := h.1.1
    simp [List.flatMap_map] at this
    intro hm; cases c <;> simp_all [exprReads]
  | call x args k ih =>
    intro h ha hc
    simp only [readsOf, atomsOf, List.flatMap_cons, List.mem_append, not_or, if_true] at h
    simp only [assigns, Bool.or_eq_false_iff, beq_eq_false_iff_ne] at ha
    simp only [callsArity, Bool.and_eq_true, beq_iff_eq] at hc
    refine ⟨ha.1, hc.1, ?_, ih h.2 ha.2 hc.2⟩
    intro j hj hcontra
    apply h.1
    rw [mem_selfCallReads_iff]
    refine ⟨j, by simp [hcontra, exprArg], ?_⟩
    intro hpj
    -- params[j] = p = params[i] with Nodup forces j = i
    have hi := List.getElem?_eq_some_iff.mp hp
    have hj' := List.getElem?_eq_some_iff.mp hpj
    obtain ⟨hil, hie⟩ := hi
    obtain ⟨hjl, hje⟩ := hj'
    exact hj ((List.getElem_inj hnd).mp (hje.trans hie.symm))



theorem eval_subst {p : Name} {n : Int} {e1 e2 : Env} (h : Agree p e1 e2) (hp : e1 p = n) (e : Expr) :
    (substExpr p n e).eval e2 = e.eval e1 := by
  cases e with
  | lit m => rfl
  | var x =>
    simp only [substExpr]
    split
    · rename_i hx; subst hx; simp [Expr.eval, hp]
    · rename_i hx; exact (h x hx).symm

theorem map_subst {p : Name} {n : Int} {e1 e2 : Env} (h : Agree p e1 e2) (hp : e1 p = n)
    (es : List Expr) : (es.map (substExpr p n)).map (Expr.eval e2) = es.map (Expr.eval e1) := by
  rw [List.map_map]
  exact List.map_congr_left (fun e _ => eval_subst h hp e)

theorem map_eraseIdx' {α β : Type} (f : α → β) : ∀ (l : List α) (i : Nat),
    (l.eraseIdx i).map f = (l.map f).eraseIdx i := by
  intro l
  induction l with
  | nil => intro i; simp
  | cons a r ih =>
    intro i
    cases i with
    | zero => simp
    | succ k => simp [ih k]

theorem bindParams_get (p : Name) : ∀ (params : List Name) (vals : List Int) (i : Nat) (v : Int),
    params[i]? = some p → params.Nodup → vals[i]? = some v → bindParams params vals p = v := by
  intro params
  induction params with
  | nil => intro vals i v h; simp at h
  | cons q qs ih =>
    intro vals i v h hnd hv
    cases vals with
    | nil => simp at hv
    | cons w ws =>
      cases i with
      | zero => simp at h hv; subst h; subst hv; simp [bindParams, TailRec.upd]
      | succ k =>
        have hnd' := List.nodup_cons.mp hnd
        have hq : p ≠ q := by
          intro hpq; subst hpq
          exact hnd'.1 (List.mem_of_getElem? (by simpa using h))
        simp only [bindParams, TailRec.upd, hq, if_false]
        exact ih ws k v (by simpa using h) hnd'.2 (by simpa using hv)

/-- What "constant `n`" means for a body: `p` is never assigned, and every self call passes the
literal `n` in position `i`; self calls have `k` arguments. -/
def okConst (p : Name) (i : Nat) (n : Int) (k : Nat) : CBody → Prop
  | .ret _ => True
  | .bin x _ _ _ b => x ≠ p ∧ okConst p i n k b
  | .print _ b => okConst p i n k b
  | .ite _ t e => okConst p i n k t ∧ okConst p i n k e
  | .call x args b => x ≠ p ∧ args.length = k ∧ args[i]? = some (.lit n) ∧ okConst p i n k b

theorem upd_keep {p : Name} {n : Int} {e1 : Env} (hp : e1 p = n) (x : Name) (hx : x ≠ p) (v : Int) :
    (upd e1 x v) p = n := by
  have : p ≠ x := fun h => hx h.symm
  simp [TailRec.upd, this, hp]

/-- Simulation: the function with the constant parameter substituted and removed runs exactly like
the original whenever the parameter holds the constant. -/
theorem exec_subst (ev : Op → Int → Int → Option Int) (params : List Name) (body : CBody)
    (p : Name) (i : Nat) (n : Int) (hp : params[i]? = some p) (hnd : params.Nodup)
    (hbody : okConst p i n params.length body) :
    ∀ (fuel : Nat) (b : CBody) (e1 e2 : Env) (out : List (List Int)), Agree p e1 e2 → e1 p = n →
      okConst p i n params.length b →
      exec ev params body fuel e1 out b =
        exec ev (params.eraseIdx i) (dropArg i (substVar p n body)) fuel e2 out
          (dropArg i (substVar p n b)) := by
  intro fuel
  induction fuel with
  | zero =>
    intro b
    induction b with
    | ret e => intro e1 e2 out ha hn hk; simp [exec, dropArg, substVar, eval_subst ha hn e]
    | bin x op a1 a2 k ih =>
      intro e1 e2 out ha hn hk
      simp only [exec, dropArg, substVar, eval_subst ha hn a1, eval_subst ha hn a2]
      split
      · rfl
      · exact ih _ _ _ (ha.upd x _) (upd_keep hn x hk.1 _) hk.2
    | print es k ih =>
      intro e1 e2 out ha hn hk
      simp only [exec, dropArg, substVar, map_subst ha hn es]
      exact ih _ _ _ ha hn hk
    | ite c t e iht ihe =>
      intro e1 e2 out ha hn hk
      simp only [exec, dropArg, substVar, eval_subst ha hn c]
      split
      · exact iht _ _ _ ha hn hk.1
      · exact ihe _ _ _ ha hn hk.2
    | call x args k ih => intro e1 e2 out ha hn hk; simp [exec, dropArg, substVar]
  | succ m ihm =>
    intro b
    induction b with
    | ret e => intro e1 e2 out ha hn hk; simp [exec, dropArg, substVar, eval_subst ha hn e]
    | bin x op a1 a2 k ih =>
      intro e1 e2 out ha hn hk
      simp only [exec, dropArg, substVar, eval_subst ha hn a1, eval_subst ha hn a2]
      split
      · rfl
      · exact ih _ _ _ (ha.upd x _) (upd_keep hn x hk.1 _) hk.2
    | print es k ih =>
      intro e1 e2 out ha hn hk
      simp only [exec, dropArg, substVar, map_subst ha hn es]
      exact ih _ _ _ ha hn hk
    | ite c t e iht ihe =>
      intro e1 e2 out ha hn hk
      simp only [exec, dropArg, substVar, eval_subst ha hn c]
      split
      · exact iht _ _ _ ha hn hk.1
      · exact ihe _ _ _ ha hn hk.2
    | call x args k ih =>
      intro e1 e2 out ha hn hk
      obtain ⟨hx, hlen, hi, hk'⟩ := hk
      simp only [exec, dropArg, substVar]
      have hvals : ((args.map (substExpr p n)).eraseIdx i).map (Expr.eval e2) =
          (args.map (Expr.eval e1)).eraseIdx i := by
        rw [map_eraseIdx', map_subst ha hn args]
      have hni : (args.map (Expr.eval e1))[i]? = some n := by
        simp [hi, Expr.eval]
      have hcallee := ihm body
        (bindParams params (args.map (Expr.eval e1)))
        (bindParams (params.eraseIdx i) (((args.map (substExpr p n)).eraseIdx i).map (Expr.eval e2))) out
        (by rw [hvals]; exact bindParams_erase p params _ i hp hnd)
        (bindParams_get p params _ i n hp hnd hni) hbody
      rw [hcallee]
      split
      · rfl
      · exact ih _ _ _ (ha.upd x _) (upd_keep hn x hx _) hk'


/-- Argument lists of the self calls of a body. -/
def selfCalls : CBody → List (List Expr)
  | .ret _ => []
  | .bin _ _ _ _ k => selfCalls k
  | .print _ k => selfCalls k
  | .ite _ t e => selfCalls t ++ selfCalls e
  | .call _ args k => args :: selfCalls k

theorem selfCalls_atoms (self : Nat) (hself : self ≠ 999) : ∀ (b : CBody) (args : List Expr),
    args ∈ selfCalls b → Atom.call self (args.map exprArg) ∈ atomsOf self b := by
  intro b
  induction b with
  | ret e => intro args h; simp [selfCalls] at h
  | bin x op e1 e2 k ih => intro args h; simp only [atomsOf, List.mem_append]; exact Or.inr (ih args h)
  | print es k ih => intro args h; simp only [atomsOf, List.mem_cons]; exact Or.inr (ih args h)
  | ite c t e iht ihe =>
    intro args h
    simp only [selfCalls, List.mem_append] at h
    simp only [atomsOf, List.mem_append]
    rcases h with h | h
    · exact Or.inl (Or.inr (iht args h))
    · exact Or.inr (ihe args h)
  | call x a k ih =>
    intro args h
    simp only [selfCalls, List.mem_cons] at h
    simp only [atomsOf, List.mem_cons]
    rcases h with h | h
    · subst h; exact Or.inl rfl
    · exact Or.inr (ih args h)

theorem okConst_of_calls (p : Name) (i : Nat) (n : Int) (k : Nat) (hi : i < k) : ∀ (b : CBody),
    (∀ args ∈ selfCalls b, ∀ a, (args.map exprArg)[i]? = some a → a = .i32 n) →
    assigns p b = false → callsArity k b = true → okConst p i n k b := by
  intro b
  induction b with
  | ret e => intro _ _ _; trivial
  | bin x op e1 e2 b ih =>
    intro h ha hc
    simp only [assigns, Bool.or_eq_false_iff, beq_eq_false_iff_ne] at ha
    exact ⟨ha.1, ih h ha.2 (by simpa [callsArity] using hc)⟩
  | print es b ih =>
    intro h ha hc
    exact ih h (by simpa [assigns] using ha) (by simpa [callsArity] using hc)
  | ite c t e iht ihe =>
    intro h ha hc
    simp only [assigns, Bool.or_eq_false_iff] at ha
    simp only [callsArity, Bool.and_eq_true] at hc
    exact ⟨iht (fun a ha' => h a (by simp [selfCalls, ha'])) ha.1 hc.1,
      ihe (fun a ha' => h a (by simp [selfCalls, ha'])) ha.2 hc.2⟩
  | call x args b ih =>
    intro h ha hc
    simp only [assigns, Bool.or_eq_false_iff, beq_eq_false_iff_ne] at ha
    simp only [callsArity, Bool.and_eq_true, beq_iff_eq] at hc
    refine ⟨ha.1, hc.1, ?_, ih (fun a ha' => h a (by simp [selfCalls, ha'])) ha.2 hc.2⟩
    have hlt : i < args.length := by omega
    have := h args (by simp [selfCalls]) (exprArg args[i]) (by simp [hlt])
    rw [List.getElem?_eq_getElem hlt]
    cases hq : args[i] with
    | lit m => simp [hq, exprArg] at this; subst this; rfl
    | var y => simp [hq, exprArg] at this

end SamVerif.CpeSem
