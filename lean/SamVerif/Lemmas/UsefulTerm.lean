import SamVerif.Lemmas.Useful
/-! Termination of `usefulF` / `cexF` (fuel-free statements for `Props/C07.lean`).

Measure: `(matW P + rowW q, |q|)` lexicographically, where a row weighs the *product* of
`1 + patW p` over its patterns, a constructor pattern weighs the product over its arguments, an
or-pattern the *sum* over its alternatives and a wildcard nothing.  Specialisation and the default
matrix never increase `matW` (or-expansion duplicates the rest of a row, which the product accounts
for), specialisation by a root constructor strictly decreases it. -/
namespace SamVerif.Useful

theorem rowW_pos : ∀ (ps : List Pat), 0 < rowW ps
  | [] => by simp [rowW]
  | p :: ps => by
    simp only [rowW]
    exact Nat.mul_pos (by omega) (rowW_pos ps)

theorem rowW_append : ∀ (a b : List Pat), rowW (a ++ b) = rowW a * rowW b
  | [], b => by simp [rowW]
  | p :: a, b => by simp [rowW, rowW_append a b, Nat.mul_assoc]

theorem rowW_wilds : ∀ (n : Nat), rowW (wilds n) = 1
  | 0 => by simp [wilds, rowW]
  | n + 1 => by rw [wilds_succ]; simp [rowW, patW, rowW_wilds n]

theorem matW_append : ∀ (A B : Matrix), matW (A ++ B) = matW A + matW B
  | [], B => by simp [matW]
  | r :: A, B => by simp [matW, matW_append A B, Nat.add_assoc]

/-- bound factor of the rows that come out of one head pattern -/
def specBound : Pat → Nat
  | .wild => 1
  | p => patW p

theorem specBound_le (p : Pat) : specBound p ≤ 1 + patW p := by
  cases p <;> simp [specBound, patW]

theorem specBound_lt (p : Pat) (h : headCtors p ≠ [] ∨ p ≠ .wild) : specBound p < 1 + patW p := by
  cases p with
  | wild => rcases h with h | h <;> simp [headCtors] at h
  | struct c args => simp [specBound]
  | or ps => simp [specBound]

mutual
theorem specHead_w (c : Option Ctor) (n : Nat) (rest : Row) : ∀ (p : Pat),
    matW (specHead c n rest p) ≤ specBound p * rowW rest
  | .wild => by simp [specHead, matW, specBound, rowW_append, rowW_wilds]
  | .struct c' rs => by
    simp only [specBound, patW]
    cases c' with
    | none => simp [specHead, matW, rowW_append]
    | some a =>
      cases c with
      | none => simp [specHead, matW, rowW_append]
      | some b =>
        simp only [specHead]
        split
        · simp [matW, rowW_append]
        · simp [matW]
  | .or ps => by
    simp only [specBound, patW, specHead]
    exact specHeads_w c n rest ps
theorem specHeads_w (c : Option Ctor) (n : Nat) (rest : Row) : ∀ (ps : List Pat),
    matW (specHeads c n rest ps) ≤ sumW ps * rowW rest
  | [] => by simp [specHeads, matW]
  | p :: ps => by
    simp only [specHeads, matW_append, sumW, Nat.add_mul]
    have h1 := specHead_w c n rest p
    have h2 := specHeads_w c n rest ps
    have h3 := Nat.mul_le_mul_right (rowW rest) (specBound_le p)
    rw [Nat.add_mul] at h3
    omega
end

mutual
theorem defaultHead_w (rest : Row) : ∀ (p : Pat), matW (defaultHead rest p) ≤ (1 + patW p) * rowW rest
  | .wild => by simp [defaultHead, matW, patW]
  | .struct _ _ => by simp [defaultHead, matW]
  | .or ps => by
    simp only [defaultHead, patW]
    have := defaultHeads_w rest ps
    rw [Nat.add_mul]; omega
theorem defaultHeads_w (rest : Row) : ∀ (ps : List Pat), matW (defaultHeads rest ps) ≤ sumW ps * rowW rest
  | [] => by simp [defaultHeads, matW]
  | p :: ps => by
    simp only [defaultHeads, matW_append, sumW, Nat.add_mul]
    have h1 := defaultHead_w rest p
    have h2 := defaultHeads_w rest ps
    rw [Nat.add_mul] at h1
    omega
end

theorem specRow_w (c : Option Ctor) (n : Nat) : ∀ (r : Row), matW (specRow c n r) ≤ rowW r
  | [] => by simp [specRow, matW]
  | p :: rest => by
    simp only [specRow, rowW]
    exact Nat.le_trans (specHead_w c n rest p) (Nat.mul_le_mul_right _ (specBound_le p))

theorem specRow_w_lt (c : Option Ctor) (n : Nat) (r : Row) (h : rowHeadCtors r ≠ []) :
    matW (specRow c n r) < rowW r := by
  cases r with
  | nil => simp [rowHeadCtors] at h
  | cons p rest =>
    simp only [specRow, rowW]
    simp only [rowHeadCtors] at h
    exact Nat.lt_of_le_of_lt (specHead_w c n rest p)
      (Nat.mul_lt_mul_of_pos_right (specBound_lt p (Or.inl h)) (rowW_pos rest))

theorem matW_specialize_le (c : Option Ctor) (n : Nat) : ∀ (P : Matrix), matW (specialize P c n) ≤ matW P
  | [] => by simp [specialize, matW]
  | r :: P => by
    have h1 := specRow_w c n r
    have h2 := matW_specialize_le c n P
    simp only [specialize, List.flatMap_cons, matW_append, matW] at h2 ⊢
    omega

theorem matW_specialize_lt (c : Option Ctor) (n : Nat) : ∀ (P : Matrix), rawRoots P ≠ [] →
    matW (specialize P c n) < matW P
  | [], h => by simp [rawRoots] at h
  | r :: P, h => by
    have hle := matW_specialize_le c n P
    simp only [specialize, List.flatMap_cons, matW_append, matW] at hle ⊢
    by_cases hr : rowHeadCtors r = []
    · have : rawRoots P ≠ [] := by
        intro hp; apply h; simp [rawRoots, hr] at hp ⊢; exact hp
      have h2 := matW_specialize_lt c n P this
      have h1 := specRow_w c n r
      simp only [specialize] at h2
      omega
    · have h1 := specRow_w_lt c n r hr
      omega

theorem defaultRow_w : ∀ (r : Row), matW (defaultRow r) ≤ rowW r
  | [] => by simp [defaultRow, matW]
  | p :: rest => by simp only [defaultRow, rowW]; exact defaultHead_w rest p

theorem matW_default_le : ∀ (P : Matrix), matW (defaultMatrix P) ≤ matW P
  | [] => by simp [defaultMatrix, matW]
  | r :: P => by
    have h1 := defaultRow_w r
    have h2 := matW_default_le P
    simp only [defaultMatrix, List.flatMap_cons, matW_append, matW] at h2 ⊢
    omega

theorem sumW_mem : ∀ (ps : List Pat) (r : Pat), r ∈ ps → 1 + patW r ≤ sumW ps
  | [], _, h => by simp at h
  | p :: ps, r, h => by
    simp only [List.mem_cons] at h
    simp only [sumW]
    rcases h with h | h
    · subst h; omega
    · have := sumW_mem ps r h; omega


/-! ### fuel stability -/

theorem anyO_stable {α : Type} (f : Nat → α → Option Bool) : ∀ (l : List α),
    (∀ x ∈ l, ∃ n r, ∀ m, n ≤ m → f m x = some r) → ∃ n r, ∀ m, n ≤ m → anyO (f m) l = some r
  | [], _ => ⟨0, false, fun _ _ => by simp [anyO]⟩
  | x :: xs, h => by
    obtain ⟨n1, r1, h1⟩ := h x (by simp)
    obtain ⟨n2, r2, h2⟩ := anyO_stable f xs (fun y hy => h y (by simp [hy]))
    cases r1 with
    | true => exact ⟨n1, true, fun m hm => by simp [anyO, h1 m hm]⟩
    | false =>
      refine ⟨max n1 n2, r2, fun m hm => ?_⟩
      simp [anyO, h1 m (by omega), h2 m (by omega)]

theorem rawRoots_ne_of_mem (P : Matrix) (x : Option Ctor × Nat) (h : x ∈ rootCtors P) : rawRoots P ≠ [] := by
  intro he
  have := rootCtors_sub P x h
  rw [he] at this; simp at this

theorem useful_terminates_aux (cx : Cx) : ∀ (a b : Nat) (P : Matrix) (q : Row),
    matW P + rowW q ≤ a → q.length ≤ b → ∃ n r, ∀ m, n ≤ m → usefulF cx m P q = some r := by
  intro a
  induction a with
  | zero =>
    intro b P q h _
    have := rowW_pos q
    omega
  | succ a iha =>
    intro b
    induction b with
    | zero =>
      intro P q _ hb
      have hq : q = [] := List.length_eq_zero_iff.mp (by omega)
      subst hq
      refine ⟨1, P.isEmpty, fun m hm => ?_⟩
      obtain ⟨m', rfl⟩ : ∃ m', m = m' + 1 := ⟨m - 1, by omega⟩
      cases P <;> simp [usefulF]
    | succ b ihb =>
      intro P q ha hb
      by_cases hP : P.isEmpty = true
      · refine ⟨1, true, fun m hm => ?_⟩
        obtain ⟨m', rfl⟩ : ∃ m', m = m' + 1 := ⟨m - 1, by omega⟩
        simp [usefulF, hP]
      cases q with
      | nil =>
        refine ⟨1, false, fun m hm => ?_⟩
        obtain ⟨m', rfl⟩ : ∃ m', m = m' + 1 := ⟨m - 1, by omega⟩
        simp [usefulF, hP]
      | cons p rest =>
        have hrest := rowW_pos rest
        cases p with
        | struct c rs =>
          have hle := matW_specialize_le c rs.length P
          have : matW (specialize P c rs.length) + rowW (rs ++ rest) ≤ a := by
            simp only [rowW, patW, rowW_append, Nat.add_mul, Nat.one_mul] at ha ⊢
            omega
          obtain ⟨n, r, h⟩ := iha (rs ++ rest).length _ _ this (Nat.le_refl _)
          refine ⟨n + 1, r, fun m hm => ?_⟩
          obtain ⟨m', rfl⟩ : ∃ m', m = m' + 1 := ⟨m - 1, by omega⟩
          simp only [usefulF, hP]
          exact h m' (by omega)
        | wild =>
          cases hs : sigIncomplete cx (rootCtors P) with
          | none =>
            have hall : ∀ cn ∈ rootCtors P, ∃ n r, ∀ m, n ≤ m →
                usefulF cx m (specialize P cn.1 cn.2) (wilds cn.2 ++ rest) = some r := by
              intro cn hmem
              have hlt := matW_specialize_lt cn.1 cn.2 P (rawRoots_ne_of_mem P cn hmem)
              have : matW (specialize P cn.1 cn.2) + rowW (wilds cn.2 ++ rest) ≤ a := by
                simp only [rowW, patW, rowW_append, rowW_wilds, Nat.one_mul, Nat.add_zero] at ha ⊢
                omega
              exact iha _ _ _ this (Nat.le_refl _)
            obtain ⟨n, r, h⟩ := anyO_stable
              (fun m (cn : Option Ctor × Nat) => usefulF cx m (specialize P cn.1 cn.2) (wilds cn.2 ++ rest)) _ hall
            refine ⟨n + 1, r, fun m hm => ?_⟩
            obtain ⟨m', rfl⟩ : ∃ m', m = m' + 1 := ⟨m - 1, by omega⟩
            simp only [usefulF, hP, hs]
            exact h m' (by omega)
          | some inc =>
            have hle := matW_default_le P
            have : matW (defaultMatrix P) + rowW rest ≤ a + 1 := by
              simp only [rowW, patW, Nat.add_zero, Nat.one_mul] at ha
              omega
            obtain ⟨n, r, h⟩ := ihb _ rest this (by simp at hb; omega)
            refine ⟨n + 1, r, fun m hm => ?_⟩
            obtain ⟨m', rfl⟩ : ∃ m', m = m' + 1 := ⟨m - 1, by omega⟩
            simp only [usefulF, hP, hs]
            exact h m' (by omega)
        | or ps =>
          have hall : ∀ r ∈ ps, ∃ n b, ∀ m, n ≤ m → usefulF cx m P (r :: rest) = some b := by
            intro r hmem
            have h1 := sumW_mem ps r hmem
            have h2 := Nat.mul_le_mul_right (rowW rest) h1
            have : matW P + rowW (r :: rest) ≤ a := by
              simp only [rowW, patW, Nat.add_mul, Nat.one_mul] at ha h2 ⊢
              omega
            exact iha _ _ _ this (Nat.le_refl _)
          obtain ⟨n, r, h⟩ := anyO_stable (fun m r => usefulF cx m P (r :: rest)) _ hall
          refine ⟨n + 1, r, fun m hm => ?_⟩
          obtain ⟨m', rfl⟩ : ∃ m', m = m' + 1 := ⟨m - 1, by omega⟩
          simp only [usefulF, hP]
          exact h m' (by omega)


theorem firstO_stable {α β : Type} (f : Nat → α → Option (Option β)) : ∀ (l : List α),
    (∀ x ∈ l, ∃ n r, ∀ m, n ≤ m → f m x = some r) → ∃ n r, ∀ m, n ≤ m → firstO (f m) l = some r
  | [], _ => ⟨0, none, fun _ _ => by simp [firstO]⟩
  | x :: xs, h => by
    obtain ⟨n1, r1, h1⟩ := h x (by simp)
    obtain ⟨n2, r2, h2⟩ := firstO_stable f xs (fun y hy => h y (by simp [hy]))
    cases r1 with
    | some d => exact ⟨n1, some d, fun m hm => by simp [firstO, h1 m hm]⟩
    | none =>
      refine ⟨max n1 n2, r2, fun m hm => ?_⟩
      simp [firstO, h1 m (by omega), h2 m (by omega)]

theorem cex_terminates_aux (cx : Cx) : ∀ (a b : Nat) (P : Matrix) (n : Nat),
    matW P < a → n ≤ b → ∃ k r, ∀ m, k ≤ m → cexF cx m P n = some r := by
  intro a
  induction a with
  | zero => intro b P n h _; omega
  | succ a iha =>
    intro b
    induction b with
    | zero =>
      intro P n _ hb
      have hn : n = 0 := by omega
      subst hn
      refine ⟨1, if P.isEmpty then some [] else none, fun m hm => ?_⟩
      obtain ⟨m', rfl⟩ : ∃ m', m = m' + 1 := ⟨m - 1, by omega⟩
      cases P <;> simp [cexF]
    | succ b ihb =>
      intro P n ha hb
      by_cases hn : n = 0
      · subst hn
        refine ⟨1, if P.isEmpty then some [] else none, fun m hm => ?_⟩
        obtain ⟨m', rfl⟩ : ∃ m', m = m' + 1 := ⟨m - 1, by omega⟩
        cases P <;> simp [cexF]
      cases hs : sigIncomplete cx (rootCtors P) with
      | some inc =>
        have hle := matW_default_le P
        obtain ⟨k, r, h⟩ := ihb (defaultMatrix P) (n - 1) (by omega) (by omega)
        refine ⟨k + 1, match r with
          | none => none
          | some v => some ((match minCtor inc with
              | some (variant, size) => Pat.struct (some variant) (wilds size)
              | none => Pat.wild) :: v), fun m hm => ?_⟩
        obtain ⟨m', rfl⟩ : ∃ m', m = m' + 1 := ⟨m - 1, by omega⟩
        simp only [cexF, hn, if_false, hs, h m' (by omega)]
        cases r <;> rfl
      | none =>
        have hall : ∀ cn ∈ sortByKey (rootCtors P), ∃ k r, ∀ m, k ≤ m →
            (match cexF cx m (specialize P cn.1 cn.2) (cn.2 + n - 1) with
              | none => none
              | some none => some none
              | some (some v) => some (some (Pat.struct cn.1 (v.take cn.2) :: v.drop cn.2))) = some r := by
          intro cn hmem
          have hmem' := (mem_sortByKey _ _).mp hmem
          have hlt := matW_specialize_lt cn.1 cn.2 P (rawRoots_ne_of_mem P cn hmem')
          obtain ⟨k, r, h⟩ := iha (cn.2 + n - 1) (specialize P cn.1 cn.2) (cn.2 + n - 1) (by omega) (Nat.le_refl _)
          refine ⟨k, match r with
            | none => none
            | some v => some (Pat.struct cn.1 (v.take cn.2) :: v.drop cn.2), fun m hm => ?_⟩
          rw [h m hm]
          cases r <;> rfl
        obtain ⟨k, r, h⟩ := firstO_stable
          (fun m (cn : Option Ctor × Nat) =>
            match cexF cx m (specialize P cn.1 cn.2) (cn.2 + n - 1) with
              | none => none
              | some none => some none
              | some (some v) => some (some (Pat.struct cn.1 (v.take cn.2) :: v.drop cn.2))) _ hall
        refine ⟨k + 1, r, fun m hm => ?_⟩
        obtain ⟨m', rfl⟩ : ∃ m', m = m' + 1 := ⟨m - 1, by omega⟩
        simp only [cexF, hn, if_false, hs]
        exact h m' (by omega)


/-! ### An explicit fuel bound

`A` bounds the arity of every constructor pattern occurring in `P` and `q` (specialisation and the
default matrix only copy sub-patterns and add wildcards, so the bound is invariant).  The potential
`(matW P + rowW q) * (A + 1) + |q|` strictly decreases at every recursive call. -/

theorem arL_append : ∀ (a b : List Pat), arL (a ++ b) = max (arL a) (arL b)
  | [], b => by simp [arL]
  | p :: a, b => by simp [arL, arL_append a b, Nat.max_assoc]

theorem arL_wilds : ∀ (n : Nat), arL (wilds n) = 0
  | 0 => by simp [wilds, arL]
  | n + 1 => by rw [wilds_succ]; simp [arL, arP, arL_wilds n]

theorem arM_append : ∀ (A B : Matrix), arM (A ++ B) = max (arM A) (arM B)
  | [], B => by simp [arM]
  | r :: A, B => by simp [arM, arM_append A B, Nat.max_assoc]

theorem arL_mem : ∀ (ps : List Pat) (p : Pat), p ∈ ps → arP p ≤ arL ps
  | [], _, h => by simp at h
  | q :: ps, p, h => by
    simp only [List.mem_cons] at h
    simp only [arL]
    rcases h with h | h
    · subst h; omega
    · have := arL_mem ps p h; omega

mutual
theorem specHead_ar (c : Option Ctor) (n : Nat) (rest : Row) : ∀ (p : Pat),
    arM (specHead c n rest p) ≤ max (arP p) (arL rest)
  | .wild => by simp [specHead, arM, arL_append, arL_wilds, arP]
  | .struct c' rs => by
    have h : arL (rs ++ rest) ≤ max (arP (.struct c' rs)) (arL rest) := by
      simp only [arL_append, arP]; omega
    cases c' with
    | none => simpa [specHead, arM] using h
    | some a =>
      cases c with
      | none => simpa [specHead, arM] using h
      | some b =>
        simp only [specHead]
        split
        · simpa [arM] using h
        · simp [arM]
  | .or ps => by
    simp only [specHead, arP]
    exact specHeads_ar c n rest ps
theorem specHeads_ar (c : Option Ctor) (n : Nat) (rest : Row) : ∀ (ps : List Pat),
    arM (specHeads c n rest ps) ≤ max (arL ps) (arL rest)
  | [] => by simp [specHeads, arM]
  | p :: ps => by
    have h1 := specHead_ar c n rest p
    have h2 := specHeads_ar c n rest ps
    simp only [specHeads, arM_append, arL]
    omega
end

mutual
theorem defaultHead_ar (rest : Row) : ∀ (p : Pat), arM (defaultHead rest p) ≤ arL rest
  | .wild => by simp [defaultHead, arM]
  | .struct _ _ => by simp [defaultHead, arM]
  | .or ps => by simp only [defaultHead]; exact defaultHeads_ar rest ps
theorem defaultHeads_ar (rest : Row) : ∀ (ps : List Pat), arM (defaultHeads rest ps) ≤ arL rest
  | [] => by simp [defaultHeads, arM]
  | p :: ps => by
    have h1 := defaultHead_ar rest p
    have h2 := defaultHeads_ar rest ps
    simp only [defaultHeads, arM_append]
    omega
end

theorem arM_specialize_le (c : Option Ctor) (n : Nat) : ∀ (P : Matrix), arM (specialize P c n) ≤ arM P
  | [] => by simp [specialize, arM]
  | r :: P => by
    have h2 := arM_specialize_le c n P
    simp only [specialize, List.flatMap_cons, arM_append, arM] at h2 ⊢
    cases r with
    | nil => simp [specRow, arM]; omega
    | cons p rest =>
      have h1 := specHead_ar c n rest p
      simp only [specRow, arL]
      omega

theorem arM_default_le : ∀ (P : Matrix), arM (defaultMatrix P) ≤ arM P
  | [] => by simp [defaultMatrix, arM]
  | r :: P => by
    have h2 := arM_default_le P
    simp only [defaultMatrix, List.flatMap_cons, arM_append, arM] at h2 ⊢
    cases r with
    | nil => simp [defaultRow, arM]; omega
    | cons p rest =>
      have h1 := defaultHead_ar rest p
      simp only [defaultRow, arL]
      omega

mutual
theorem headCtors_ar : ∀ (p : Pat) (c : Option Ctor) (n : Nat), (c, n) ∈ headCtors p → n ≤ arP p
  | .wild, _, _, h => by simp [headCtors] at h
  | .struct c' rs, c, n, h => by
    simp only [headCtors, List.mem_singleton, Prod.mk.injEq] at h
    simp only [arP]; omega
  | .or ps, c, n, h => by
    simp only [headCtors] at h
    simp only [arP]
    exact headCtorsL_ar ps c n h
theorem headCtorsL_ar : ∀ (ps : List Pat) (c : Option Ctor) (n : Nat), (c, n) ∈ headCtorsL ps → n ≤ arL ps
  | [], _, _, h => by simp [headCtorsL] at h
  | p :: ps, c, n, h => by
    simp only [headCtorsL, List.mem_append] at h
    simp only [arL]
    rcases h with h | h
    · have := headCtors_ar p c n h; omega
    · have := headCtorsL_ar ps c n h; omega
end

theorem rawRoots_ar : ∀ (P : Matrix) (c : Option Ctor) (n : Nat), (c, n) ∈ rawRoots P → n ≤ arM P
  | [], _, _, h => by simp [rawRoots] at h
  | r :: P, c, n, h => by
    simp only [rawRoots, List.flatMap_cons, List.mem_append] at h
    simp only [arM]
    rcases h with h | h
    · cases r with
      | nil => simp [rowHeadCtors] at h
      | cons p rest =>
        have := headCtors_ar p c n h
        simp only [arL]; omega
    · have := rawRoots_ar P c n (by simpa [rawRoots] using h)
      omega

theorem mul_step (a' a A : Nat) (h : a' + 1 ≤ a) : a' * (A + 1) + (A + 1) ≤ a * (A + 1) := by
  have := Nat.mul_le_mul_right (A + 1) h
  rw [Nat.add_mul, Nat.one_mul] at this
  exact this

theorem anyO_stable_at {α : Type} (f : Nat → α → Option Bool) (k : Nat) : ∀ (l : List α),
    (∀ x ∈ l, ∃ r, ∀ m, k < m → f m x = some r) → ∃ r, ∀ m, k < m → anyO (f m) l = some r
  | [], _ => ⟨false, fun _ _ => by simp [anyO]⟩
  | x :: xs, h => by
    obtain ⟨r1, h1⟩ := h x (by simp)
    obtain ⟨r2, h2⟩ := anyO_stable_at f k xs (fun y hy => h y (by simp [hy]))
    cases r1 with
    | true => exact ⟨true, fun m hm => by simp [anyO, h1 m hm]⟩
    | false => exact ⟨r2, fun m hm => by simp [anyO, h1 m hm, h2 m hm]⟩

theorem firstO_stable_at {α β : Type} (f : Nat → α → Option (Option β)) (k : Nat) : ∀ (l : List α),
    (∀ x ∈ l, ∃ r, ∀ m, k < m → f m x = some r) → ∃ r, ∀ m, k < m → firstO (f m) l = some r
  | [], _ => ⟨none, fun _ _ => by simp [firstO]⟩
  | x :: xs, h => by
    obtain ⟨r1, h1⟩ := h x (by simp)
    obtain ⟨r2, h2⟩ := firstO_stable_at f k xs (fun y hy => h y (by simp [hy]))
    cases r1 with
    | some d => exact ⟨some d, fun m hm => by simp [firstO, h1 m hm]⟩
    | none => exact ⟨r2, fun m hm => by simp [firstO, h1 m hm, h2 m hm]⟩

theorem useful_fuel_aux (cx : Cx) (A : Nat) : ∀ (k : Nat) (P : Matrix) (q : Row),
    arM P ≤ A → arL q ≤ A → (matW P + rowW q) * (A + 1) + q.length ≤ k →
    ∃ r, ∀ m, k < m → usefulF cx m P q = some r := by
  intro k
  induction k with
  | zero =>
    intro P q _ _ h
    have h1 := rowW_pos q
    have h2 := mul_step 0 (matW P + rowW q) A (by omega)
    omega
  | succ k ih =>
    intro P q hP hq hk
    by_cases hPe : P.isEmpty = true
    · refine ⟨true, fun m hm => ?_⟩
      obtain ⟨m', rfl⟩ : ∃ m', m = m' + 1 := ⟨m - 1, by omega⟩
      simp [usefulF, hPe]
    cases q with
    | nil =>
      refine ⟨false, fun m hm => ?_⟩
      obtain ⟨m', rfl⟩ : ∃ m', m = m' + 1 := ⟨m - 1, by omega⟩
      simp [usefulF, hPe]
    | cons p rest =>
      have hrest := rowW_pos rest
      cases p with
      | struct c rs =>
        have hle := matW_specialize_le c rs.length P
        have har := arM_specialize_le c rs.length P
        simp only [arL, arP] at hq
        have hstep := mul_step (matW (specialize P c rs.length) + rowW (rs ++ rest))
          (matW P + rowW (Pat.struct c rs :: rest)) A (by
            simp only [rowW, patW, rowW_append, Nat.add_mul, Nat.one_mul]; omega)
        obtain ⟨r, h⟩ := ih (specialize P c rs.length) (rs ++ rest) (by omega)
          (by rw [arL_append]; omega) (by simp only [List.length_append, List.length_cons] at hk ⊢; omega)
        refine ⟨r, fun m hm => ?_⟩
        obtain ⟨m', rfl⟩ : ∃ m', m = m' + 1 := ⟨m - 1, by omega⟩
        simp only [usefulF, hPe]
        exact h m' (by omega)
      | wild =>
        simp only [arL, arP] at hq
        cases hs : sigIncomplete cx (rootCtors P) with
        | none =>
          have hall : ∀ cn ∈ rootCtors P, ∃ r, ∀ m, k < m →
              usefulF cx m (specialize P cn.1 cn.2) (wilds cn.2 ++ rest) = some r := by
            intro cn hmem
            have hlt := matW_specialize_lt cn.1 cn.2 P (rawRoots_ne_of_mem P cn hmem)
            have har := arM_specialize_le cn.1 cn.2 P
            have hn : cn.2 ≤ A := Nat.le_trans (rawRoots_ar P cn.1 cn.2 (rootCtors_sub P cn hmem)) hP
            have hstep := mul_step (matW (specialize P cn.1 cn.2) + rowW (wilds cn.2 ++ rest))
              (matW P + rowW (Pat.wild :: rest)) A (by
                simp only [rowW, patW, rowW_append, rowW_wilds, Nat.one_mul, Nat.add_zero]; omega)
            exact ih _ _ (by omega) (by rw [arL_append, arL_wilds]; omega)
              (by simp only [List.length_append, wilds_length, List.length_cons] at hk ⊢; omega)
          obtain ⟨r, h⟩ := anyO_stable_at
            (fun m (cn : Option Ctor × Nat) => usefulF cx m (specialize P cn.1 cn.2) (wilds cn.2 ++ rest)) k _ hall
          refine ⟨r, fun m hm => ?_⟩
          obtain ⟨m', rfl⟩ : ∃ m', m = m' + 1 := ⟨m - 1, by omega⟩
          simp only [usefulF, hPe, hs]
          exact h m' (by omega)
        | some inc =>
          have hle := matW_default_le P
          have har := arM_default_le P
          have hmono := Nat.mul_le_mul_right (A + 1)
            (show matW (defaultMatrix P) + rowW rest ≤ matW P + rowW (Pat.wild :: rest) by
              simp only [rowW, patW, Nat.add_zero, Nat.one_mul]; omega)
          obtain ⟨r, h⟩ := ih (defaultMatrix P) rest (by omega) (by omega)
            (by simp only [List.length_cons] at hk; omega)
          refine ⟨r, fun m hm => ?_⟩
          obtain ⟨m', rfl⟩ : ∃ m', m = m' + 1 := ⟨m - 1, by omega⟩
          simp only [usefulF, hPe, hs]
          exact h m' (by omega)
      | or ps =>
        simp only [arL, arP] at hq
        have hall : ∀ r ∈ ps, ∃ b, ∀ m, k < m → usefulF cx m P (r :: rest) = some b := by
          intro r hmem
          have h1 := sumW_mem ps r hmem
          have h2 := Nat.mul_le_mul_right (rowW rest) h1
          have har := arL_mem ps r hmem
          have hstep := mul_step (matW P + rowW (r :: rest)) (matW P + rowW (Pat.or ps :: rest)) A (by
            simp only [rowW, patW, Nat.add_mul, Nat.one_mul] at h2 ⊢; omega)
          exact ih P (r :: rest) hP (by simp only [arL]; omega)
            (by simp only [List.length_cons] at hk ⊢; omega)
        obtain ⟨r, h⟩ := anyO_stable_at (fun m r => usefulF cx m P (r :: rest)) k _ hall
        refine ⟨r, fun m hm => ?_⟩
        obtain ⟨m', rfl⟩ : ∃ m', m = m' + 1 := ⟨m - 1, by omega⟩
        simp only [usefulF, hPe]
        exact h m' (by omega)

theorem cex_fuel_aux (cx : Cx) (A : Nat) : ∀ (k : Nat) (P : Matrix) (n : Nat),
    arM P ≤ A → matW P * (A + 1) + n ≤ k → ∃ r, ∀ m, k < m → cexF cx m P n = some r := by
  intro k
  induction k with
  | zero =>
    intro P n _ hk
    have hn : n = 0 := by omega
    subst hn
    refine ⟨if P.isEmpty then some [] else none, fun m hm => ?_⟩
    obtain ⟨m', rfl⟩ : ∃ m', m = m' + 1 := ⟨m - 1, by omega⟩
    cases P <;> simp [cexF]
  | succ k ih =>
    intro P n hP hk
    by_cases hn : n = 0
    · subst hn
      refine ⟨if P.isEmpty then some [] else none, fun m hm => ?_⟩
      obtain ⟨m', rfl⟩ : ∃ m', m = m' + 1 := ⟨m - 1, by omega⟩
      cases P <;> simp [cexF]
    cases hs : sigIncomplete cx (rootCtors P) with
    | some inc =>
      have hle := matW_default_le P
      have har := arM_default_le P
      have hmono := Nat.mul_le_mul_right (A + 1) hle
      obtain ⟨r, h⟩ := ih (defaultMatrix P) (n - 1) (by omega) (by omega)
      refine ⟨match r with
        | none => none
        | some v => some ((match minCtor inc with
            | some (variant, size) => Pat.struct (some variant) (wilds size)
            | none => Pat.wild) :: v), fun m hm => ?_⟩
      obtain ⟨m', rfl⟩ : ∃ m', m = m' + 1 := ⟨m - 1, by omega⟩
      simp only [cexF, hn, if_false, hs, h m' (by omega)]
      cases r <;> rfl
    | none =>
      have hall : ∀ cn ∈ sortByKey (rootCtors P), ∃ r, ∀ m, k < m →
          (match cexF cx m (specialize P cn.1 cn.2) (cn.2 + n - 1) with
            | none => none
            | some none => some none
            | some (some v) => some (some (Pat.struct cn.1 (v.take cn.2) :: v.drop cn.2))) = some r := by
        intro cn hmem
        have hmem' := (mem_sortByKey _ _).mp hmem
        have hlt := matW_specialize_lt cn.1 cn.2 P (rawRoots_ne_of_mem P cn hmem')
        have har := arM_specialize_le cn.1 cn.2 P
        have hcn : cn.2 ≤ A := Nat.le_trans (rawRoots_ar P cn.1 cn.2 (rootCtors_sub P cn hmem')) hP
        have hstep := mul_step (matW (specialize P cn.1 cn.2)) (matW P) A (by omega)
        obtain ⟨r, h⟩ := ih (specialize P cn.1 cn.2) (cn.2 + n - 1) (by omega) (by omega)
        refine ⟨match r with
          | none => none
          | some v => some (Pat.struct cn.1 (v.take cn.2) :: v.drop cn.2), fun m hm => ?_⟩
        rw [h m hm]
        cases r <;> rfl
      obtain ⟨r, h⟩ := firstO_stable_at
        (fun m (cn : Option Ctor × Nat) =>
          match cexF cx m (specialize P cn.1 cn.2) (cn.2 + n - 1) with
            | none => none
            | some none => some none
            | some (some v) => some (some (Pat.struct cn.1 (v.take cn.2) :: v.drop cn.2))) k _ hall
      refine ⟨r, fun m hm => ?_⟩
      obtain ⟨m', rfl⟩ : ∃ m', m = m' + 1 := ⟨m - 1, by omega⟩
      simp only [cexF, hn, if_false, hs]
      exact h m' (by omega)

end SamVerif.Useful
