import SamVerif.Lemmas.Useful
/-! Termination of `usefulF` / `cexF` (fuel-free statements for `Props/C07.lean`).

Measure: `(matW P + rowW q, |q|)` lexicographically, where a row weighs the *product* of
`1 + patW p` over its patterns, a constructor pattern weighs the product over its arguments, an
or-pattern the *sum* over its alternatives and a wildcard nothing.  Specialisation and the default
matrix never increase `matW` (or-expansion duplicates the rest of a row, which the product accounts
for), specialisation by a root constructor strictly decreases it. -/
namespace SamVerif.Useful

mutual
def patW : Pat → Nat
  | .wild => 0
  | .struct _ args => rowW args
  | .or ps => sumW ps
def rowW : List Pat → Nat
  | [] => 1
  | p :: ps => (1 + patW p) * rowW ps
def sumW : List Pat → Nat
  | [] => 0
  | p :: ps => (1 + patW p) + sumW ps
end

def matW : Matrix → Nat
  | [] => 0
  | r :: P => rowW r + matW P

theorem rowW_pos : ∀ (ps : List Pat), 0 < rowW ps
  | [] => by simp [rowW]
  | p :: ps => by
    simp only [rowW]
    exact Nat.mul_pos (by omega) (rowW_pos ps)

theorem rowW_append : ∀ (a b : List Pat), rowW (a ++ b) = rowW a * rowW b
  | [], b => by simp [rowW]
  | p :: a, b => by simp [rowW, rowW_append a b, Nat.mul_assoc]

theorem rowW_wilds : ∀ (n : Nat), rowW (wilds n) = 1
  | 0 => by simp [wilds, rowW]
  | n + 1 => by rw [wilds_succ]; simp [rowW, patW, rowW_wilds n]

theorem matW_append : ∀ (A B : Matrix), matW (A ++ B) = matW A + matW B
  | [], B => by simp [matW]
  | r :: A, B => by simp [matW, matW_append A B, Nat.add_assoc]

/-- bound factor of the rows that come out of one head pattern -/
def specBound : Pat → Nat
  | .wild => 1
  | p => patW p

theorem specBound_le (p : Pat) : specBound p ≤ 1 + patW p := by
  cases p <;> simp [specBound, patW]

theorem specBound_lt (p : Pat) (h : headCtors p ≠ [] ∨ p ≠ .wild) : specBound p < 1 + patW p := by
  cases p with
  | wild => rcases h with h | h <;> simp [headCtors] at h
  | struct c args => simp [specBound]
  | or ps => simp [specBound]

mutual
theorem specHead_w (c : Option Ctor) (n : Nat) (rest : Row) : ∀ (p : Pat),
    matW (specHead c n rest p) ≤ specBound p * rowW rest
  | .wild => by simp [specHead, matW, specBound, rowW_append, rowW_wilds]
  | .struct c' rs => by
    simp only [specBound, patW]
    cases c' with
    | none => simp [specHead, matW, rowW_append]
    | some a =>
      cases c with
      | none => simp [specHead, matW, rowW_append]
      | some b =>
        simp only [specHead]
        split
        · simp [matW, rowW_append]
        · simp [matW]
  | .or ps => by
    simp only [specBound, patW, specHead]
    exact specHeads_w c n rest ps
theorem specHeads_w (c : Option Ctor) (n : Nat) (rest : Row) : ∀ (ps : List Pat),
    matW (specHeads c n rest ps) ≤ sumW ps * rowW rest
  | [] => by simp [specHeads, matW]
  | p :: ps => by
    simp only [specHeads, matW_append, sumW, Nat.add_mul]
    have h1 := specHead_w c n rest p
    have h2 := specHeads_w c n rest ps
    have h3 := Nat.mul_le_mul_right (rowW rest) (specBound_le p)
    rw [Nat.add_mul] at h3
    omega
end

mutual
theorem defaultHead_w (rest : Row) : ∀ (p : Pat), matW (defaultHead rest p) ≤ (1 + patW p) * rowW rest
  | .wild => by simp [defaultHead, matW, patW]
  | .struct _ _ => by simp [defaultHead, matW]
  | .or ps => by
    simp only [defaultHead, patW]
    have := defaultHeads_w rest ps
    rw [Nat.add_mul]; omega
theorem defaultHeads_w (rest : Row) : ∀ (ps : List Pat), matW (defaultHeads rest ps) ≤ sumW ps * rowW rest
  | [] => by simp [defaultHeads, matW]
  | p :: ps => by
    simp only [defaultHeads, matW_append, sumW, Nat.add_mul]
    have h1 := defaultHead_w rest p
    have h2 := defaultHeads_w rest ps
    rw [Nat.add_mul] at h1
    omega
end

theorem specRow_w (c : Option Ctor) (n : Nat) : ∀ (r : Row), matW (specRow c n r) ≤ rowW r
  | [] => by simp [specRow, matW]
  | p :: rest => by
    simp only [specRow, rowW]
    exact Nat.le_trans (specHead_w c n rest p) (Nat.mul_le_mul_right _ (specBound_le p))

theorem specRow_w_lt (c : Option Ctor) (n : Nat) (r : Row) (h : rowHeadCtors r ≠ []) :
    matW (specRow c n r) < rowW r := by
  cases r with
  | nil => simp [rowHeadCtors] at h
  | cons p rest =>
    simp only [specRow, rowW]
    simp only [rowHeadCtors] at h
    exact Nat.lt_of_le_of_lt (specHead_w c n rest p)
      (Nat.mul_lt_mul_of_pos_right (specBound_lt p (Or.inl h)) (rowW_pos rest))

theorem matW_specialize_le (c : Option Ctor) (n : Nat) : ∀ (P : Matrix), matW (specialize P c n) ≤ matW P
  | [] => by simp [specialize, matW]
  | r :: P => by
    have h1 := specRow_w c n r
    have h2 := matW_specialize_le c n P
    simp only [specialize, List.flatMap_cons, matW_append, matW] at h2 ⊢
    omega

theorem matW_specialize_lt (c : Option Ctor) (n : Nat) : ∀ (P : Matrix), rawRoots P ≠ [] →
    matW (specialize P c n) < matW P
  | [], h => by simp [rawRoots] at h
  | r :: P, h => by
    have hle := matW_specialize_le c n P
    simp only [specialize, List.flatMap_cons, matW_append, matW] at hle ⊢
    by_cases hr : rowHeadCtors r = []
    · have : rawRoots P ≠ [] := by
        intro hp; apply h; simp [rawRoots, hr] at hp ⊢; exact hp
      have h2 := matW_specialize_lt c n P this
      have h1 := specRow_w c n r
      simp only [specialize] at h2
      omega
    · have h1 := specRow_w_lt c n r hr
      omega

theorem defaultRow_w : ∀ (r : Row), matW (defaultRow r) ≤ rowW r
  | [] => by simp [defaultRow, matW]
  | p :: rest => by simp only [defaultRow, rowW]; exact defaultHead_w rest p

theorem matW_default_le : ∀ (P : Matrix), matW (defaultMatrix P) ≤ matW P
  | [] => by simp [defaultMatrix, matW]
  | r :: P => by
    have h1 := defaultRow_w r
    have h2 := matW_default_le P
    simp only [defaultMatrix, List.flatMap_cons, matW_append, matW] at h2 ⊢
    omega

theorem sumW_mem : ∀ (ps : List Pat) (r : Pat), r ∈ ps → 1 + patW r ≤ sumW ps
  | [], _, h => by simp at h
  | p :: ps, r, h => by
    simp only [List.mem_cons] at h
    simp only [sumW]
    rcases h with h | h
    · subst h; omega
    · have := sumW_mem ps r h; omega


/-! ### fuel stability -/

theorem anyO_stable {α : Type} (f : Nat → α → Option Bool) : ∀ (l : List α),
    (∀ x ∈ l, ∃ n r, ∀ m, n ≤ m → f m x = some r) → ∃ n r, ∀ m, n ≤ m → anyO (f m) l = some r
  | [], _ => ⟨0, false, fun _ _ => by simp [anyO]⟩
  | x :: xs, h => by
    obtain ⟨n1, r1, h1⟩ := h x (by simp)
    obtain ⟨n2, r2, h2⟩ := anyO_stable f xs (fun y hy => h y (by simp [hy]))
    cases r1 with
    | true => exact ⟨n1, true, fun m hm => by simp [anyO, h1 m hm]⟩
    | false =>
      refine ⟨max n1 n2, r2, fun m hm => ?_⟩
      simp [anyO, h1 m (by omega), h2 m (by omega)]

theorem rawRoots_ne_of_mem (P : Matrix) (x : Option Ctor × Nat) (h : x ∈ rootCtors P) : rawRoots P ≠ [] := by
  intro he
  have := rootCtors_sub P x h
  rw [he] at this; simp at this

theorem useful_terminates_aux (cx : Cx) : ∀ (a b : Nat) (P : Matrix) (q : Row),
    matW P + rowW q ≤ a → q.length ≤ b → ∃ n r, ∀ m, n ≤ m → usefulF cx m P q = some r := by
  intro a
  induction a with
  | zero =>
    intro b P q h _
    have := rowW_pos q
    omega
  | succ a iha =>
    intro b
    induction b with
    | zero =>
      intro P q _ hb
      have hq : q = [] := List.length_eq_zero_iff.mp (by omega)
      subst hq
      refine ⟨1, P.isEmpty, fun m hm => ?_⟩
      obtain ⟨m', rfl⟩ : ∃ m', m = m' + 1 := ⟨m - 1, by omega⟩
      cases P <;> simp [usefulF]
    | succ b ihb =>
      intro P q ha hb
      by_cases hP : P.isEmpty = true
      · refine ⟨1, true, fun m hm => ?_⟩
        obtain ⟨m', rfl⟩ : ∃ m', m = m' + 1 := ⟨m - 1, by omega⟩
        simp [usefulF, hP]
      cases q with
      | nil =>
        refine ⟨1, false, fun m hm => ?_⟩
        obtain ⟨m', rfl⟩ : ∃ m', m = m' + 1 := ⟨m - 1, by omega⟩
        simp [usefulF, hP]
      | cons p rest =>
        have hrest := rowW_pos rest
        cases p with
        | struct c rs =>
          have hle := matW_specialize_le c rs.length P
          have : matW (specialize P c rs.length) + rowW (rs ++ rest) ≤ a := by
            simp only [rowW, patW, rowW_append, Nat.add_mul, Nat.one_mul] at ha ⊢
            omega
          obtain ⟨n, r, h⟩ := iha (rs ++ rest).length _ _ this (Nat.le_refl _)
          refine ⟨n + 1, r, fun m hm => ?_⟩
          obtain ⟨m', rfl⟩ : ∃ m', m = m' + 1 := ⟨m - 1, by omega⟩
          simp only [usefulF, hP]
          exact h m' (by omega)
        | wild =>
          cases hs : sigIncomplete cx (rootCtors P) with
          | none =>
            have hall : ∀ cn ∈ rootCtors P, ∃ n r, ∀ m, n ≤ m →
                usefulF cx m (specialize P cn.1 cn.2) (wilds cn.2 ++ rest) = some r := by
              intro cn hmem
              have hlt := matW_specialize_lt cn.1 cn.2 P (rawRoots_ne_of_mem P cn hmem)
              have : matW (specialize P cn.1 cn.2) + rowW (wilds cn.2 ++ rest) ≤ a := by
                simp only [rowW, patW, rowW_append, rowW_wilds, Nat.one_mul, Nat.add_zero] at ha ⊢
                omega
              exact iha _ _ _ this (Nat.le_refl _)
            obtain ⟨n, r, h⟩ := anyO_stable
              (fun m (cn : Option Ctor × Nat) => usefulF cx m (specialize P cn.1 cn.2) (wilds cn.2 ++ rest)) _ hall
            refine ⟨n + 1, r, fun m hm => ?_⟩
            obtain ⟨m', rfl⟩ : ∃ m', m = m' + 1 := ⟨m - 1, by omega⟩
            simp only [usefulF, hP, hs]
            exact h m' (by omega)
          | some inc =>
            have hle := matW_default_le P
            have : matW (defaultMatrix P) + rowW rest ≤ a + 1 := by
              simp only [rowW, patW, Nat.add_zero, Nat.one_mul] at ha
              omega
            obtain ⟨n, r, h⟩ := ihb _ rest this (by simp at hb; omega)
            refine ⟨n + 1, r, fun m hm => ?_⟩
            obtain ⟨m', rfl⟩ : ∃ m', m = m' + 1 := ⟨m - 1, by omega⟩
            simp only [usefulF, hP, hs]
            exact h m' (by omega)
        | or ps =>
          have hall : ∀ r ∈ ps, ∃ n b, ∀ m, n ≤ m → usefulF cx m P (r :: rest) = some b := by
            intro r hmem
            have h1 := sumW_mem ps r hmem
            have h2 := Nat.mul_le_mul_right (rowW rest) h1
            have : matW P + rowW (r :: rest) ≤ a := by
              simp only [rowW, patW, Nat.add_mul, Nat.one_mul] at ha h2 ⊢
              omega
            exact iha _ _ _ this (Nat.le_refl _)
          obtain ⟨n, r, h⟩ := anyO_stable (fun m r => usefulF cx m P (r :: rest)) _ hall
          refine ⟨n + 1, r, fun m hm => ?_⟩
          obtain ⟨m', rfl⟩ : ∃ m', m = m' + 1 := ⟨m - 1, by omega⟩
          simp only [usefulF, hP]
          exact h m' (by omega)


theorem firstO_stable {α β : Type} (f : Nat → α → Option (Option β)) : ∀ (l : List α),
    (∀ x ∈ l, ∃ n r, ∀ m, n ≤ m → f m x = some r) → ∃ n r, ∀ m, n ≤ m → firstO (f m) l = some r
  | [], _ => ⟨0, none, fun _ _ => by simp [firstO]⟩
  | x :: xs, h => by
    obtain ⟨n1, r1, h1⟩ := h x (by simp)
    obtain ⟨n2, r2, h2⟩ := firstO_stable f xs (fun y hy => h y (by simp [hy]))
    cases r1 with
    | some d => exact ⟨n1, some d, fun m hm => by simp [firstO, h1 m hm]⟩
    | none =>
      refine ⟨max n1 n2, r2, fun m hm => ?_⟩
      simp [firstO, h1 m (by omega), h2 m (by omega)]

theorem cex_terminates_aux (cx : Cx) : ∀ (a b : Nat) (P : Matrix) (n : Nat),
    matW P < a → n ≤ b → ∃ k r, ∀ m, k ≤ m → cexF cx m P n = some r := by
  intro a
  induction a with
  | zero => intro b P n h _; omega
  | succ a iha =>
    intro b
    induction b with
    | zero =>
      intro P n _ hb
      have hn : n = 0 := by omega
      subst hn
      refine ⟨1, if P.isEmpty then some [] else none, fun m hm => ?_⟩
      obtain ⟨m', rfl⟩ : ∃ m', m = m' + 1 := ⟨m - 1, by omega⟩
      cases P <;> simp [cexF]
    | succ b ihb =>
      intro P n ha hb
      by_cases hn : n = 0
      · subst hn
        refine ⟨1, if P.isEmpty then some [] else none, fun m hm => ?_⟩
        obtain ⟨m', rfl⟩ : ∃ m', m = m' + 1 := ⟨m - 1, by omega⟩
        cases P <;> simp [cexF]
      cases hs : sigIncomplete cx (rootCtors P) with
      | some inc =>
        have hle := matW_default_le P
        obtain ⟨k, r, h⟩ := ihb (defaultMatrix P) (n - 1) (by omega) (by omega)
        refine ⟨k + 1, match r with
          | none => none
          | some v => some ((match minCtor inc with
              | some (variant, size) => Pat.struct (some variant) (wilds size)
              | none => Pat.wild) :: v), fun m hm => ?_⟩
        obtain ⟨m', rfl⟩ : ∃ m', m = m' + 1 := ⟨m - 1, by omega⟩
        simp only [cexF, hn, if_false, hs, h m' (by omega)]
        cases r <;> rfl
      | none =>
        have hall : ∀ cn ∈ sortByKey (rootCtors P), ∃ k r, ∀ m, k ≤ m →
            (match cexF cx m (specialize P cn.1 cn.2) (cn.2 + n - 1) with
              | none => none
              | some none => some none
              | some (some v) => some (some (Pat.struct cn.1 (v.take cn.2) :: v.drop cn.2))) = some r := by
          intro cn hmem
          have hmem' := (mem_sortByKey _ _).mp hmem
          have hlt := matW_specialize_lt cn.1 cn.2 P (rawRoots_ne_of_mem P cn hmem')
          obtain ⟨k, r, h⟩ := iha (cn.2 + n - 1) (specialize P cn.1 cn.2) (cn.2 + n - 1) (by omega) (Nat.le_refl _)
          refine ⟨k, match r with
            | none => none
            | some v => some (Pat.struct cn.1 (v.take cn.2) :: v.drop cn.2), fun m hm => ?_⟩
          rw [h m hm]
          cases r <;> rfl
        obtain ⟨k, r, h⟩ := firstO_stable
          (fun m (cn : Option Ctor × Nat) =>
            match cexF cx m (specialize P cn.1 cn.2) (cn.2 + n - 1) with
              | none => none
              | some none => some none
              | some (some v) => some (some (Pat.struct cn.1 (v.take cn.2) :: v.drop cn.2))) _ hall
        refine ⟨k + 1, r, fun m hm => ?_⟩
        obtain ⟨m', rfl⟩ : ∃ m', m = m' + 1 := ⟨m - 1, by omega⟩
        simp only [cexF, hn, if_false, hs]
        exact h m' (by omega)

end SamVerif.Useful
