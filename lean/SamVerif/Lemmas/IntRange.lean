import SamVerif.Model.IntRange
/-! Helper lemmas about `Model/IntRange.lean` (the property theorems are in `Props/C06.lean`). -/
namespace SamVerif.IntRange

theorem step_pending_ne_none (p : Option Tok) (r : Raw) : (step p r).1 ≠ none := by
  unfold step; split <;> (try split) <;> (try split) <;> (try split) <;> simp

theorem step_pending_minus (p : Option Tok) (r : Raw) :
    (step p r).1 = some (.raw .minus) ↔ r = .minus := by
  unfold step; split <;> (try split) <;> (try split) <;> (try split) <;> simp_all

theorem run_errs_length (p : Option Tok) (rs : List Raw) : (run p rs).2.length = rs.length := by
  induction rs generalizing p with
  | nil => simp [run]
  | cons r rs ih => simp [run, ih]

theorem step_err (p : Option Tok) (v : Nat) :
    (step p (.int v)).2.2 = true ↔ (maxP1 < v ∨ (v = maxP1 ∧ p ≠ some (.raw .minus))) := by
  simp only [step, maxP1, i64Lim]
  by_cases h1 : 9223372036854775808 ≤ v
  · simp [h1]; omega
  · by_cases h2 : 2147483648 < v ∨ v = 2147483648 ∧ p ≠ some (Tok.raw Raw.minus)
    · simp [h1, h2]
    · by_cases h3 : v = 2147483648 ∧ p = some (Tok.raw Raw.minus)
      · simp [h3]
      · simp [h1, h2, h3]

/-- Which previous token the merge test sees at index `i`. -/
def prevIsMinus (p : Option Tok) (rs : List Raw) (i : Nat) : Prop :=
  match i with
  | 0 => p = some (.raw .minus)
  | j + 1 => rs[j]? = some .minus

/-- Exact description of where the producer reports "Not a 32-bit integer.". -/
theorem run_err (p : Option Tok) (rs : List Raw) (i v : Nat) (h : rs[i]? = some (.int v)) :
    (run p rs).2[i]? = some true ↔ (maxP1 < v ∨ (v = maxP1 ∧ ¬ prevIsMinus p rs i)) := by
  induction rs generalizing p i with
  | nil => simp at h
  | cons r rs ih =>
    cases i with
    | zero =>
      simp at h; subst h
      simp [run, step_err, prevIsMinus]
    | succ i =>
      simp at h
      have := ih (step p r).1 i h
      simp only [run, List.getElem?_cons_succ, this]
      cases i with
      | zero => simp [prevIsMinus, step_pending_minus]
      | succ j => simp [prevIsMinus]

theorem run_err_false (p : Option Tok) (rs : List Raw) (i v : Nat) (h : rs[i]? = some (.int v)) :
    (run p rs).2[i]? = some false ↔ ¬ (maxP1 < v ∨ (v = maxP1 ∧ ¬ prevIsMinus p rs i)) := by
  have hlen := run_errs_length p rs
  have hi : i < rs.length := by
    rcases Nat.lt_or_ge i rs.length with h' | h'
    · exact h'
    · simp [List.getElem?_eq_none h'] at h
  have hi' : i < (run p rs).2.length := by omega
  have := run_err p rs i v h
  rw [List.getElem?_eq_getElem hi'] at this ⊢
  cases hb : (run p rs).2[i] <;> simp_all

theorem step_merge : (step (some (.raw .minus)) (.int maxP1)).1 = some .negMin := by decide

/-- Every `raw (int v)` token handed to the parser is the buffer's or comes from an unmerged
raw literal. -/
theorem mem_run_int (p : Option Tok) (rs : List Raw) (v : Nat)
    (h : Tok.raw (.int v) ∈ (run p rs).1) :
    p = some (.raw (.int v)) ∨
      ∃ i, rs[i]? = some (.int v) ∧ ¬ (v = maxP1 ∧ prevIsMinus p rs i) := by
  induction rs generalizing p with
  | nil =>
    left
    simp only [run] at h
    cases p <;> simp_all
  | cons r rs ih =>
    simp only [run, List.mem_append] at h
    rcases h with h | h
    · left
      unfold step at h
      split at h <;> (try split at h) <;> (try split at h) <;> (try split at h) <;>
        (cases p <;> simp_all)
    · rcases ih _ h with h' | ⟨i, hi, hn⟩
      · right
        have hr : r = .int v := by
          unfold step at h'
          split at h' <;> (try split at h') <;> (try split at h') <;> (try split at h') <;> simp_all
        subst hr
        refine ⟨0, by simp, ?_⟩
        intro ⟨hv, hp⟩
        simp only [prevIsMinus] at hp
        subst hv hp
        rw [step_merge] at h'
        simp at h'
      · right
        refine ⟨i + 1, by simpa using hi, ?_⟩
        intro ⟨hv, hp⟩
        apply hn
        refine ⟨hv, ?_⟩
        cases i with
        | zero =>
          simp only [prevIsMinus] at hp ⊢
          simp at hp
          exact (step_pending_minus p r).2 hp
        | succ j =>
          simp only [prevIsMinus] at hp ⊢
          simpa using hp

theorem expand_append (a b : List Tok) : expand (a ++ b) = expand a ++ expand b := by
  induction a with
  | nil => rfl
  | cons t ts ih => cases t <;> simp [expand, ih]

/-- Nothing is lost or invented: un-merging the yielded tokens gives back buffer ++ input. -/
theorem run_conserves (p : Option Tok) (rs : List Raw) :
    expand (run p rs).1 = expand p.toList ++ rs := by
  induction rs generalizing p with
  | nil => simp [run]
  | cons r rs ih =>
    simp only [run, expand_append, ih]
    unfold step
    split <;> (try split) <;> (try split) <;> (try split) <;>
      (cases p <;> simp_all [expand])

end SamVerif.IntRange
