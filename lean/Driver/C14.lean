import SamVerif.Model.Lexer
import Driver.Util
/-! Protocol `lex` of C14: token kinds, texts and spans of the scanner model
(`SamVerif.Lexer.tokenize`), format `T <kind>:<hextext>@l0.c0-l1.c1;...[ P]`
(= `harness/src/bin/c14.rs`). -/
namespace Driver.C14
open SamVerif.Lexer Driver

def kindName : Kind → String
  | .kw => "kw" | .op => "op" | .upper => "upper" | .lower => "lower" | .str => "str"
  | .int => "int" | .line => "line" | .block => "block" | .doc => "doc" | .error => "error"

def showTok (t : Token) : String :=
  kindName t.kind ++ ":" ++ hexOfBytes t.text ++ "@" ++
    s!"{t.start.line}.{t.start.col}-{t.stop.line}.{t.stop.col}"

def showResult (r : Result) : String :=
  let toks := if r.toks.isEmpty then "-" else ";".intercalate (r.toks.map showTok)
  let tail := match r.fin with
    | .ok => ""
    | .panic => " P"
    | .fuel => " FUEL"
  s!"T {toks}{tail}"

def step (st : Unit) (line : String) : Unit × String :=
  match words line with
  | ["lex", h] => (st, showResult (tokenize (bytesOfHex h)))
  | _ => (st, "bad-op")

end Driver.C14

def main (_args : List String) : IO UInt32 := do
  Driver.runLoop () Driver.C14.step
  return 0
