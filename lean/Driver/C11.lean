import SamVerif.Model.Gc
import Driver.Util
/-!
Driver for C11: replays the heap-call log of one real language-server operation (update / rename /
remove / new, recorded by the `Heap::verif_log` hook) through the heap model, and checks that the GC
part of the log is exactly one `gcStep` of `Model/Gc.lean` (the function the theorems of
`Props/C11.lean` are about) with the model's constants, announcing every current module.

input line :  `reset`  |  `op mods=<id,id,..> log=<tokens>`
tokens     :  A<hex> alloc_string | S<hex> alloc_static | T alloc_temp | R<h,h,..> alloc_module_ref
              U<m> add_unmarked | P<m> pop | M<h> mark | W<n> sweep        (h = i<hex> | r<id>)
answer     :  `stat=<total,used,unused> gc=<verdict>`
-/
namespace Driver.C11
open SamVerif.Heap SamVerif.Gc Driver

def parseHandle (s : String) : Handle :=
  if s.startsWith "r" then .ref ((s.drop 1).toString.toNat!) else .inl (bytesOfHex (s.drop 1).toString)

def parseHandles (s : String) : List Handle :=
  if s.isEmpty then [] else (s.splitOn ",").map parseHandle

inductive Tok where
  | op (o : Op)
  | pop (m : Nat)
  deriving Repr

def parseTok (h : Heap) (t : String) : Option Tok :=
  let rest := (t.drop 1).toString
  match t.toList.head? with
  | some 'A' => some (.op (.allocString (bytesOfHex rest)))
  | some 'S' => some (.op (.allocStatic (bytesOfHex rest)))
  | some 'T' => some (.op (.allocTemp ("_t" ++ toString h.slots.length).toUTF8.toList))
  | some 'R' => some (.op (.allocModuleRef (parseHandles rest)))
  | some 'U' => some (.op (.addUnmarked rest.toNat!))
  | some 'P' => some (.pop rest.toNat!)
  | some 'M' => some (.op (.mark (parseHandle rest)))
  | some 'W' => some (.op (.sweep rest.toNat!))
  | _ => none

/-- Sequential replay of all tokens. -/
def replay (h : Heap) : List String → Heap
  | [] => h
  | t :: ts =>
    match parseTok h t with
    | some (.op o) => replay (step h o) ts
    | some (.pop m) => replay ((popUnmarked h (some m)).getD h) ts
    | none => replay h ts

def isGcTok (t : String) : Bool :=
  match t.toList.head? with
  | some 'U' | some 'P' | some 'M' | some 'W' => true
  | _ => false

/-- Groups `P m  M.. M..` segments into modules (id, marks) in pop order. -/
def groupModules : List String → List Module → List Module
  | [], acc => acc.reverse
  | t :: ts, acc =>
    let rest := (t.drop 1).toString
    match t.toList.head? with
    | some 'P' => groupModules ts (⟨rest.toNat!, []⟩ :: acc)
    | some 'M' =>
      match acc with
      | md :: more => groupModules ts ({ md with marks := md.marks ++ [parseHandle rest] } :: more)
      | [] => groupModules ts acc
    | _ => groupModules ts acc

def shapeOk : List String → Nat → Bool
  -- phase 0: U*, phase 1: (P M*)*, phase 2: after the single W
  | [], ph => ph == 2
  | t :: ts, ph =>
    match t.toList.head?, ph with
    | some 'U', 0 => shapeOk ts 0
    | some 'P', 0 => shapeOk ts 1
    | some 'P', 1 => shapeOk ts 1
    | some 'M', 1 => shapeOk ts 1
    | some 'W', 0 => shapeOk ts 2
    | some 'W', 1 => shapeOk ts 2
    | _, _ => false

def natList (s : String) : List Nat :=
  if s.isEmpty then [] else (s.splitOn ",").map String.toNat!

def field (ws : List String) (key : String) : String :=
  match ws.find? (·.startsWith (key ++ "=")) with
  | some w => (w.drop (key.length + 1)).toString
  | none => ""

def step (h : Heap) (line : String) : Heap × String :=
  let ws := words line
  match ws with
  | ["reset"] => (init, "stat=0,0,0 gc=none")
  | "op" :: _ =>
    let mods := natList (field ws "mods")
    -- everything after `log=` are tokens (the first one is glued to `log=`)
    let toks := match ws.dropWhile (fun w => !w.startsWith "log=") with
      | [] => []
      | l :: rest => ((l.drop 4).toString :: rest).filter (· ≠ "")
    let allocToks := toks.takeWhile (fun t => !isGcTok t)
    let gcToks := toks.dropWhile (fun t => !isGcTok t)
    let h1 := replay h allocToks
    let h2 := replay h1 gcToks
    -- state after marking, before the sweep: where the hypothesis `Cov` of gc_safe is evaluated
    let hm := replay h1 (gcToks.filter (fun t => !t.startsWith "W"))
    let reach := natList (field ws "reach")
    let uncovered := if !hm.unmarked.isEmpty || !(gcToks.any (·.startsWith "W")) then [] else
      reach.filter fun id =>
        match hm.slots[id]? with
        | some (.perm _) => false
        | some (.temp _ true) => false
        | _ => true
    let (t, u, d) := stat h2
    let verdict :=
      if gcToks.isEmpty then "none"
      else if gcToks.any (fun t => !isGcTok t) then "ALLOC-DURING-GC"
      else if !shapeOk gcToks 0 then "BAD-SHAPE"
      else
        let changed := gcToks.filterMap fun t =>
          if t.startsWith "U" then some (t.drop 1).toString.toNat! else none
        let all := groupModules gcToks []
        let choices : List (Option Nat) := (all.map fun md => some md.id) ++ [none]
        let work := (gcToks.filterMap fun t =>
          if t.startsWith "W" then some (t.drop 1).toString.toNat! else none).headD 0
        -- the current modules are exactly the checked modules; all must be announced
        if !(mods.all (· ∈ changed)) then "UNANNOUNCED-MODULE"
        else if work ≠ numSweepUnit then "SWEEP-UNIT"
        else if all.length > numModuleMarkedPerSlice then "SLICE-EXCEEDED"
        else
          -- modules announced but absent from `all` were not popped: fine (gate) — but the model
          -- needs every popped id that carries marks to be a module
          let g := gcStep h1 all changed numModuleMarkedPerSlice numSweepUnit choices
          if g = h2 then "ok" else "GCSTEP-MISMATCH"
    let cov := if uncovered.isEmpty then "ok" else
      "UNCOVERED:" ++ ",".intercalate (uncovered.take 5 |>.map fun id =>
        toString id ++ "=" ++ (match hm.slots[id]? with
          | some (.temp s _) => hexOfBytes s
          | some .dead => "dead"
          | some (.perm s) => hexOfBytes s
          | none => "out-of-range"))
    (h2, s!"stat={t},{u},{d} gc={verdict} cov={cov} reach={reach.length}")
  | _ => (h, "bad-op")

def run : IO Unit := runLoop init step

end Driver.C11

def main (_args : List String) : IO UInt32 := do
  Driver.C11.run
  return 0
