import SamVerif.Model.Useful
import Driver.Util
/-! Protocol `patcheck` (C07), model side.

Line: `chk <hex source (ignored here)> <kind> <scrutinee type id> T <n> <def>… P <m> <spat>…`
* kind: `match` | `let` | `iflet`
* def:  `E <cls> <k> (<variant name> <arity> <type id>…)…` | `S <k> (<field name> <type id>)…` | `P`
* after the patterns: `G <k> <generic class>… Y <n> <closed type of each id>…` with generic class
  `E <k> (<name> <arity> gty…)…` | `S <k> (<field> gty)…` and gty `i` | `t <index>` | `c <cls> <k> gty…`
  (`mono`: the type table is the instantiation of these classes, checked by `monoCheck`)
* then `X <n> (<k> <0|1>…)…`: per type id, the accessibility of each struct field from the class that
  contains the match (`visErr`); name id 0 is the enclosing function's parameter `x`
* optionally `B <is method 0|1> <k> (<tparam name id> <bound type id | ->)… <k'> (…)… <name>`: the class's and the
  member's type parameters and the type parameter that is the scrutinee's static type; the model
  resolves it (`scopeOf`, `resolveTParam`, `scrutineeType`) and prints the scope as `scope=`
* spat: `W` | `I <name id>` | `T <k> p…` | `O <k> (<field name> p)…` | `V <tag> <k> p…` | `R <k> p…`
Answer: `nonexh=<counterexample or -> useless=<0|1> err=<0|1> panic=<0|1> typed=<0|1> inh=<0|1>`
(`abs`: the abstract patterns `normalize` builds, in the hook's rendering, compared with what the real checker handed to the analysis;
`hyp`: `cxOkCheck && nodupCheck` — the hypotheses `CxOk`/`SigNodup` of the theorems hold for this table; `swf`: every source
pattern is in the domain of `normalize_sem`; `inh`: a rank certificate for `Inhabited'` of the type table was found and checked by `rankCheck`); variant names are
printed as `#<id>` (the Python side substitutes the names). The model functions run with the fuel `usefulFuel` / `cexFuel`, proved sufficient (`useful_fuel_bound`, `cex_fuel_bound`); `fuel` would be printed if it ran out (cannot happen). -/
namespace Driver.C07
open SamVerif.Useful Driver

abbrev Toks := List String

partial def parseN {α : Type} (f : Toks → Option (α × Toks)) : Nat → Toks → Option (List α × Toks)
  | 0, ts => some ([], ts)
  | n + 1, ts => do
    let (a, ts) ← f ts
    let (as, ts) ← parseN f n ts
    pure (a :: as, ts)

def parseNat : Toks → Option (Nat × Toks)
  | t :: ts => t.toNat?.map (·, ts)
  | [] => none

def parseVariant : Toks → Option ((Nat × List Nat) × Toks)
  | name :: ar :: ts => do
    let n ← name.toNat?
    let a ← ar.toNat?
    let (tys, ts) ← parseN parseNat a ts
    pure ((n, tys), ts)
  | _ => none

def parseField : Toks → Option ((Nat × Nat) × Toks)
  | name :: ty :: ts => do pure ((← name.toNat?, ← ty.toNat?), ts)
  | _ => none

def parseDef : Toks → Option (Def × Toks)
  | "P" :: ts => some (.prim, ts)
  | "E" :: cls :: k :: ts => do
    let (vs, ts) ← parseN parseVariant (← k.toNat?) ts
    pure (.enum (← cls.toNat?) vs, ts)
  | "S" :: k :: ts => do
    let (fs, ts) ← parseN parseField (← k.toNat?) ts
    pure (.struct fs, ts)
  | _ => none

partial def parseGTy : Toks → Option (GTy × Toks)
  | "i" :: ts => some (.int, ts)
  | "t" :: i :: ts => do pure (.tparam (← i.toNat?), ts)
  | "c" :: c :: k :: ts => do
    let (as, ts) ← parseN parseGTy (← k.toNat?) ts
    pure (.cls (← c.toNat?) as, ts)
  | _ => none

def parseFlags : Toks → Option (List Bool × Toks)
  | k :: ts => do
    let (fl, ts) ← parseN parseNat (← k.toNat?) ts
    pure (fl.map (· != 0), ts)
  | [] => none

def parseTParam : Toks → Option ((Nat × Option Nat) × Toks)
  | name :: bound :: ts => do pure ((← name.toNat?, bound.toNat?), ts)
  | _ => none

def parseGVariant : Toks → Option ((Nat × List GTy) × Toks)
  | name :: ar :: ts => do
    let (tys, ts) ← parseN parseGTy (← ar.toNat?) ts
    pure ((← name.toNat?, tys), ts)
  | _ => none

def parseGField : Toks → Option ((Nat × GTy) × Toks)
  | name :: ts => do
    let (t, ts) ← parseGTy ts
    pure ((← name.toNat?, t), ts)
  | _ => none

def parseGDef : Toks → Option (GDef × Toks)
  | "E" :: k :: ts => do
    let (vs, ts) ← parseN parseGVariant (← k.toNat?) ts
    pure (.enum vs, ts)
  | "S" :: k :: ts => do
    let (fs, ts) ← parseN parseGField (← k.toNat?) ts
    pure (.struct fs, ts)
  | _ => none

mutual
partial def parsePat : Toks → Option (SPat × Toks)
  | "W" :: ts => some (.wild, ts)
  | "I" :: name :: ts => do pure (.id (← name.toNat?), ts)
  | "T" :: k :: ts => do
    let (ps, ts) ← parseN parsePat (← k.toNat?) ts
    pure (.tuple ps, ts)
  | "R" :: k :: ts => do
    let (ps, ts) ← parseN parsePat (← k.toNat?) ts
    pure (.or ps, ts)
  | "V" :: tag :: k :: ts => do
    let (ps, ts) ← parseN parsePat (← k.toNat?) ts
    pure (.variant (← tag.toNat?) ps, ts)
  | "O" :: k :: ts => do
    let (fs, ts) ← parseN parseFieldPat (← k.toNat?) ts
    pure (.object (fs.map (·.1)) (fs.map (·.2)), ts)
  | _ => none
partial def parseFieldPat : Toks → Option ((Nat × SPat) × Toks)
  | name :: ts => do
    let (p, ts) ← parsePat ts
    pure ((← name.toNat?, p), ts)
  | [] => none
end

mutual
partial def render : Pat → String
  | .wild => "_"
  | .or ps => " | ".intercalate (ps.map render)
  | .struct none args => "(" ++ ", ".intercalate (args.map render) ++ ")"
  | .struct (some c) args =>
    if args.isEmpty then s!"#{c.name}" else s!"#{c.name}(" ++ ", ".intercalate (args.map render) ++ ")"
end


/-- least-fixpoint search for a rank assignment (untrusted; its result is checked by `rankCheck`) -/
def rankStep (defs : List Def) (ranks : List (Option Nat)) : List (Option Nat) :=
  let get (t : Nat) : Option Nat := (ranks.getD t none)
  let allRanked (tys : List Nat) : Option Nat :=
    tys.foldl (fun acc ty => match acc, get ty with
      | some m, some r => some (max m (r + 1))
      | _, _ => none) (some 0)
  (List.range defs.length).map fun t =>
    match get t with
    | some r => some r
    | none =>
      match defs.getD t .prim with
      | .prim => some 0
      | .struct fs => allRanked (fs.map (·.2))
      | .enum _ vs => (vs.filterMap fun v => (findVariant vs v.1).bind allRanked).head?

def computeRanks (defs : List Def) : List Nat :=
  let init : List (Option Nat) := List.replicate defs.length none
  let final := (List.range (defs.length + 1)).foldl (fun r _ => rankStep defs r) init
  final.map (·.getD 0)


def b (x : Bool) : String := if x then "1" else "0"

/-- the rendering of the hook `samlang_checker::verif_hooks_c07` (variant names as `#id`) -/
partial def renderAbs : Pat → String
  | .wild => "_"
  | .or ps => "O(" ++ "|".intercalate (ps.map renderAbs) ++ ")"
  | .struct none args => "T(" ++ ",".intercalate (args.map renderAbs) ++ ")"
  | .struct (some c) args => s!"@{c.cls}.#{c.name}(" ++ ",".intercalate (args.map renderAbs) ++ ")"

def answer (kind : String) (tyo : Option Nat) (defs : List Def) (pats : List SPat) (mono : Bool)
    (visTab : List (List Bool)) (binderErr : Bool) (scopeS : String) : String :=
  let sig : Sig := fun t => defs.getD t .prim
  let cx := cxOf defs
  -- if-let: `wildcard_on_bad_pattern = false` (main_checker.rs:939); match / let: `true` (981, 1539)
  let wildOnBad := kind != "iflet"
  let ty := tyo.getD 0
  let ns := pats.map (fun p => normalize sig wildOnBad p tyo)
  let aps := ns.map (·.pat)
  let vis : Vis := fun t => visTab.getD t []
  let err := ns.any (·.err) || (tyo.isSome && pats.any (fun p => visErr sig vis p ty)) || binderErr
  let pan := ns.any (·.panic)
  let typed := tyo.isNone || aps.all (fun p => patTy sig p ty)
  let absS := ";".intercalate (aps.map renderAbs)
  let inh := rankCheck defs (computeRanks defs)
  let hyp := cxOkCheck defs && nodupCheck defs
  let wf := tyo.isSome && pats.all (fun p => swf sig wildOnBad p ty)
  if kind == "iflet" then
    -- main_checker.rs:940-946: useless (irrefutable) iff a wildcard is not useful after the pattern
    match isAdditionalPatternUseful cx aps .wild with
    | none => "fuel"
    | some u => s!"nonexh=- useless={b (!u)} err={b err} panic={b pan} typed={b typed} inh={b inh} mono={b mono} hyp={b hyp} swf={b wf} shape={b (pats.all shape)} abs={absS} scope={scopeS}"
  else
    match incompleteCounterexample cx aps with
    | none => "fuel"
    | some none => s!"nonexh=- useless=0 err={b err} panic={b pan} typed={b typed} inh={b inh} mono={b mono} hyp={b hyp} swf={b wf} shape={b (pats.all shape)} abs={absS} scope={scopeS}"
    | some (some d) => s!"nonexh={(render d).replace " " "~"} useless=0 err={b err} panic={b pan} typed={b typed} inh={b inh} mono={b mono} hyp={b hyp} swf={b wf} shape={b (pats.all shape)} abs={absS} scope={scopeS}"

def step (_ : Unit) (line : String) : Unit × String :=
  match words line with
  | op :: _ :: kind :: ty :: "T" :: n :: rest =>
    if op != "chk" && op != "chkstd" then ((), "bad-op") else
    let r := do
      let (defs, rest) ← parseN parseDef (← n.toNat?) rest
      match rest with
      | "P" :: m :: rest =>
        let (pats, rest) ← parseN parsePat (← m.toNat?) rest
        -- optional trailing sections: G/Y (generic classes + closed type of each id), X (field
        -- accessibility), B (type parameters in scope + the scrutinee's type parameter)
        let (mono, rest) : Bool × Toks := match rest with
          | "G" :: k :: rest =>
            ((do
              let (classes, rest) ← parseN parseGDef (← k.toNat?) rest
              match rest with
              | "Y" :: j :: rest =>
                let (tyOf, rest) ← parseN parseGTy (← j.toNat?) rest
                pure (monoCheck classes tyOf defs, rest)
              | _ => none) : Option (Bool × Toks)).getD (false, [])
          | _ => (false, rest)
        let (visTab, rest) : List (List Bool) × Toks := match rest with
          | "X" :: n :: rest => ((do
              let (tab, rest) ← parseN parseFlags (← n.toNat?) rest
              pure (tab, rest)) : Option (List (List Bool) × Toks)).getD ([], [])
          | _ => ([], rest)
        let tyN ← ty.toNat?
        match rest with
        | "B" :: isM :: kc :: rest =>
          let (cp, rest) ← parseN parseTParam (← kc.toNat?) rest
          match rest with
          | kf :: rest =>
            let (fp, rest) ← parseN parseTParam (← kf.toNat?) rest
            let name ← (rest.head?).bind String.toNat?
            let isMethod := isM == "1"
            let scope := scopeOf isMethod cp fp
            let rend := ",".intercalate (scope.map fun (nb : Nat × Option Nat) =>
              s!"~{nb.1}=" ++ (match nb.2 with | some t => s!"${t}" | none => "-"))
            pure (answer kind (scrutineeType scope (.tparam name)) defs pats mono visTab
              (tparamCollision isMethod cp fp || (resolveTParam scope name).isNone) (if rend.isEmpty then "-" else rend))
          | [] => none
        | _ => pure (answer kind (scrutineeType [] (.inst tyN)) defs pats mono visTab false "-")
      | _ => none
    ((), r.getD "bad-line")
  | _ => ((), "bad-op")

def run : IO Unit := runLoop () step

end Driver.C07

def main (_args : List String) : IO UInt32 := do
  Driver.C07.run
  return 0
