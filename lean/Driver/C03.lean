import SamVerif.Model.CompileGate
import SamVerif.Model.MatchLower
import SamVerif.Model.EnumRepr
import SamVerif.Model.BoundCheck
import SamVerif.Model.OptKernel
import SamVerif.Model.Backends
import Driver.Util
/-! Line-protocol driver for property C03 (model side).
  gate ENTRY_PRESENT PARSE_ERRS CHECK_ERRS     -> lowered | rejected | invalid-entry
  fold OP a b | merge OUTER INNER c1 c2 | trip G i0 step bound      (as drv-c02)
  str HEX(raw literal inside, UTF-8)           -> rejected | closed | open
  bound BOUNDED SATISFIED                      -> errors=<n> at=<positions> (validate_type_arguments)
  layout T n <def>*                            -> enum layouts + LIR erasure (see runLayoutLine)
  match T n <def>* Y t A n <pat>* V n <val>*   -> typed=b nodup=b crash=b acc=b ends=a0,fb,ft,…
    <def> ::= P | E cls n (name k type*)* | S n (name type)*
    <pat> ::= t nfields k <pat>* | o nfields k (order <pat>)* | v cls name k <pat>* | i name | w | r k <pat>*
    ends: a<i>:<s> = arm i ran and the int-typed bound names (< 1000) of its pattern sum to s,
          computed from the assignments of the *lowered* code (`execCode`)
    <val> ::= c cls name k <val>* | s k <val>* | p n
-/
namespace Driver.C03
open Driver SamVerif SamVerif.Useful SamVerif.MatchLower

def opOf : String → Option Opt.Op
  | "mul" => some .mul | "div" => some .div | "mod" => some .mod | "add" => some .add
  | "sub" => some .sub | "and" => some .land | "or" => some .lor | "shl" => some .shl
  | "shr" => some .shr | "xor" => some .xor | "lt" => some .lt | "le" => some .le
  | "gt" => some .gt | "ge" => some .ge | "eq" => some .eq | "ne" => some .ne
  | _ => none

def opName : Opt.Op → String
  | .mul => "mul" | .div => "div" | .mod => "mod" | .add => "add" | .sub => "sub"
  | .land => "and" | .lor => "or" | .shl => "shl" | .shr => "shr" | .xor => "xor"
  | .lt => "lt" | .le => "le" | .gt => "gt" | .ge => "ge" | .eq => "eq" | .ne => "ne"

def guardOf : String → Option Opt.Guard
  | "lt" => some .lt | "le" => some .le | "gt" => some .gt | "ge" => some .ge | _ => none

/-! ### token-stream parsers for the `match` protocol -/

abbrev P (α : Type) := List String → Option (α × List String)

def pNat : P Nat
  | t :: rest => t.toNat?.map (fun n => (n, rest))
  | [] => none

partial def pMany {α : Type} (p : P α) : Nat → P (List α)
  | 0, ts => some ([], ts)
  | n + 1, ts =>
    match p ts with
    | none => none
    | some (x, ts') =>
      match pMany p n ts' with
      | none => none
      | some (xs, ts'') => some (x :: xs, ts'')

def pVariant : P (Nat × List Nat) := fun ts =>
  match pNat ts with
  | none => none
  | some (name, ts) =>
    match pNat ts with
    | none => none
    | some (k, ts) =>
      match pMany pNat k ts with
      | none => none
      | some (tys, ts) => some ((name, tys), ts)

def pField : P (Nat × Nat) := fun ts =>
  match pNat ts with
  | none => none
  | some (name, ts) =>
    match pNat ts with
    | none => none
    | some (ty, ts) => some ((name, ty), ts)

def pDef : P Def
  | "P" :: ts => some (.prim, ts)
  | "E" :: ts =>
    match pNat ts with
    | none => none
    | some (cls, ts) =>
      match pNat ts with
      | none => none
      | some (n, ts) =>
        match pMany pVariant n ts with
        | none => none
        | some (vs, ts) => some (.enum cls vs, ts)
  | "S" :: ts =>
    match pNat ts with
    | none => none
    | some (n, ts) =>
      match pMany pField n ts with
      | none => none
      | some (fs, ts) => some (.struct fs, ts)
  | _ => none

partial def pPat : P CPat
  | "i" :: ts => (pNat ts).map (fun (n, ts) => (.id n, ts))
  | "w" :: ts => some (.wild, ts)
  | "t" :: ts =>
    match pNat ts with
    | none => none
    | some (nf, ts) =>
      match pNat ts with
      | none => none
      | some (k, ts) =>
        match pMany pPat k ts with
        | none => none
        | some (ps, ts) => some (.tuple nf ps, ts)
  | "o" :: ts =>
    match pNat ts with
    | none => none
    | some (nf, ts) =>
      match pNat ts with
      | none => none
      | some (k, ts) =>
        let pEl : P (Nat × CPat) := fun ts =>
          match pNat ts with
          | none => none
          | some (o, ts) =>
            match pPat ts with
            | none => none
            | some (p, ts) => some ((o, p), ts)
        match pMany pEl k ts with
        | none => none
        | some (els, ts) => some (.object nf (els.map (·.1)) (els.map (·.2)), ts)
  | "v" :: ts =>
    match pNat ts with
    | none => none
    | some (cls, ts) =>
      match pNat ts with
      | none => none
      | some (name, ts) =>
        match pNat ts with
        | none => none
        | some (k, ts) =>
          match pMany pPat k ts with
          | none => none
          | some (ps, ts) => some (.variant ⟨cls, name⟩ ps, ts)
  | "r" :: ts =>
    match pNat ts with
    | none => none
    | some (k, ts) =>
      match pMany pPat k ts with
      | none => none
      | some (ps, ts) => some (.or ps, ts)
  | _ => none

partial def pVal : P Val
  | "p" :: ts => (pNat ts).map (fun (n, ts) => (.prim n, ts))
  | "s" :: ts =>
    match pNat ts with
    | none => none
    | some (k, ts) =>
      match pMany pVal k ts with
      | none => none
      | some (vs, ts) => some (.con none vs, ts)
  | "c" :: ts =>
    match pNat ts with
    | none => none
    | some (cls, ts) =>
      match pNat ts with
      | none => none
      | some (name, ts) =>
        match pNat ts with
        | none => none
        | some (k, ts) =>
          match pMany pVal k ts with
          | none => none
          | some (vs, ts) => some (.con (some ⟨cls, name⟩) vs, ts)
  | _ => none

def sigOf (defs : List Def) : Sig := fun t => defs.getD t .prim

def cxOf (defs : List Def) : Cx := fun cls =>
  match defs.find? (fun d => match d with | .enum c _ => c == cls | _ => false) with
  | some (.enum _ vs) => vs.map (fun v => (v.1, v.2.length))
  | _ => []

def intOf : Val → Nat
  | .prim k => k
  | _ => 0

/-- runs the lowered arms with assignments; agrees with `runMatch` by `exec_refines_eval` -/
def runArms : List CPat → Nat → Val → String
  | [], _, _ => "fb"
  | p :: ps, i, v =>
    match execCode (lowerPat p) v with
    | none => "ft"
    | some (true, d) =>
      let ns := ((names p).filter (· < 1000)).eraseDups
      let s := ns.foldl (fun acc x => acc + ((d.lookup x).map intOf).getD 0) 0
      "a" ++ toString i ++ ":" ++ toString s
    | some (false, _) => runArms ps (i + 1) v

def b01 (b : Bool) : String := if b then "1" else "0"

def runMatchLine (ts : List String) : Option String :=
  match ts with
  | "T" :: ts =>
    match pNat ts with
    | none => none
    | some (n, ts) =>
      match pMany pDef n ts with
      | none => none
      | some (defs, "Y" :: ts) =>
        match pNat ts with
        | some (ty, "A" :: ts) =>
          match pNat ts with
          | none => none
          | some (na, ts) =>
            match pMany pPat na ts with
            | some (arms, "V" :: ts) =>
              match pNat ts with
              | none => none
              | some (nv, ts) =>
                match pMany pVal nv ts with
                | none => none
                | some (vals, _) =>
                  let sig := sigOf defs
                  let cx := cxOf defs
                  let typed := cpatTyAll sig arms ty
                  let acc := match incompleteCounterexampleF cx 100000 (abstractArms arms) with
                    | some none => "1"
                    | some (some _) => "0"
                    | none => "fuel"
                  let ends := vals.map (fun v =>
                    if hasTy sig v ty then runArms arms 0 v else "illtyped-value")
                  some ("typed=" ++ b01 typed ++ " binds=" ++ b01 (bindsOkL arms) ++
                    " crash=" ++ b01 (lowerCrashAll arms) ++ " acc=" ++ acc ++
                    " ends=" ++ (if ends.isEmpty then "-" else ",".intercalate ends))
            | _ => none
        | _ => none
      | _ => none
  | _ => none

def toTDef : Def → EnumRepr.TDef
  | .prim => .prim
  | .struct fs => .struct (fs.map (·.2))
  | .enum _ vs => .enum (vs.map (·.2))

def showVL : EnumRepr.VL → String
  | .int31 => "i"
  | .unboxed _ => "u"
  | .boxed fs => "b" ++ toString fs.length

/-- `layout T n <def>*` -> `T1=i,u;T2=b1 | probe1=any;probe2=id` (enum layouts and LIR erasure) -/
def runLayoutLine (ts : List String) : Option String :=
  match ts with
  | "T" :: ts =>
    match pNat ts with
    | none => none
    | some (n, ts) =>
      match pMany pDef n ts with
      | none => none
      | some (defs, _) =>
        let tbl := defs.map toTDef
        let lay := EnumRepr.layoutTable tbl
        let ids := (List.range tbl.length).filter (fun t => (lay.getD t none).isSome)
        let sorted := ids.map (fun t => ("T" ++ toString t, "probe" ++ toString t, EnumRepr.layAt lay t))
        let byName := sorted.toArray.qsort (fun a b => a.1 < b.1) |>.toList
        let byProbe := sorted.toArray.qsort (fun a b => a.2.1 < b.2.1) |>.toList
        let enums := byName.map (fun x => x.1 ++ "=" ++ ",".intercalate (x.2.2.map showVL))
        let probes := byProbe.map (fun x => x.2.1 ++ "=" ++ (if EnumRepr.needsAny x.2.2 then "any" else "id"))
        some (";".intercalate enums ++ " | " ++ ";".intercalate probes)
  | _ => none

def textOfHex (h : String) : Option Backends.Text :=
  match String.fromUTF8? (ByteArray.mk (bytesOfHex h).toArray) with
  | some s => some (s.toList.map Char.toNat)
  | none => none

def step (_ : Unit) (line : String) : Unit × String :=
  let ans : String :=
    match words line with
    | ["gate", present, pe, ce] =>
      match present.toNat?, pe.toNat?, ce.toNat? with
      | some p, some pe, some ce =>
        match Gate.compileSources { modules := [0], entries := if p = 1 then [0] else [1],
                                    parseErrors := pe, checkErrors := ce } with
        | .lowered => "lowered"
        | .rejected => "rejected"
        | .invalidEntry => "invalid-entry"
      | _, _, _ => "bad-line"
    | ["fold", o, a, b] =>
      match opOf o, a.toInt?, b.toInt? with
      | some op, some a, some b =>
        match Opt.evalImpl op a b with
        | .val v => "v " ++ toString v
        | .nofold => "nofold"
        | .panic => "panic"
      | _, _, _ => "bad-line"
    | "merge" :: _ => "n/a"      -- C02's model; C03 only checks that the real kernel never aborts
    | ["trip", g, i0, st, b] =>
      match guardOf g, i0.toInt?, st.toInt?, b.toInt? with
      | some g, some i0, some st, some b =>
        match Opt.tripCount g i0 st b with
        | .count n => "n " ++ toString n
        | .unknown => "none"
        | .panic => "panic"
      | _, _, _, _ => "bad-line"
    | ["str", h] =>
      match textOfHex h with
      | none => "bad-line"
      | some raw =>
        if Backends.lexAccepts raw then
          (if (Backends.tsDecode (Backends.content raw)).isSome then "closed" else "open")
        else "rejected"
    | "match" :: ts => (runMatchLine ts).getD "bad-line"
    | "layout" :: ts => (runLayoutLine ts).getD "bad-line"
    | ["bound", bs, ss] =>
      -- bs: per type parameter `1` = bounded, `0` = unbounded; ss: `1` = argument satisfies the bound
      let params : List (Option Nat) := bs.toList.map (fun c => if c == '1' then some 1 else none)
      let args : List Nat := ss.toList.map (fun c => if c == '1' then 1 else 0)
      let errs := BoundCheck.validate (fun a b => a == b) params args
      "errors=" ++ toString errs.length ++ " at=" ++ (if errs.isEmpty then "-" else ",".intercalate (errs.map toString))
    | _ => "bad-op"
  ((), ans)

def run : IO Unit := runLoop () step

end Driver.C03

def main (_args : List String) : IO UInt32 := do
  Driver.C03.run
  return 0
