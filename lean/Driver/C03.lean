import Driver.Util
/-! Line-protocol driver for property C03 (model side). Not implemented yet. -/
def main (_args : List String) : IO UInt32 := do
  IO.eprintln "drv-c03: not implemented yet"
  return 2
