import SamVerif.Model.Lexer
import SamVerif.Model.EntryPoint
import Driver.Util
/-! Protocol `lex` (C05, C14): runs the scanner model `SamVerif.Lexer.tokenize` on hex-encoded text.
Answer format = `harness/src/bin/c05.rs`:
`T <kind>:<hextext>@l0.c0-l1.c1;... E <l0.c0-l1.c1:code>,... [P]`. -/
namespace Driver.C05
open SamVerif.Lexer Driver

def kindName : Kind → String
  | .kw => "kw" | .op => "op" | .upper => "upper" | .lower => "lower" | .str => "str"
  | .int => "int" | .line => "line" | .block => "block" | .doc => "doc" | .error => "error"

def codeName : ErrCode → String
  | .esc => "esc" | .tok => "tok" | .int => "int"

/-- rank = order of the messages as Rust strings ("Invalid escape…" < "Invalid token." < "Not a…") -/
def codeRank : ErrCode → Nat
  | .esc => 0 | .tok => 1 | .int => 2

def showSpan (a b : Pos) : String := s!"{a.line}.{a.col}-{b.line}.{b.col}"

def showTok (t : Token) : String :=
  kindName t.kind ++ ":" ++ hexOfBytes t.text ++ "@" ++ showSpan t.start t.stop

def errKey (e : Err) : List Nat := [e.start.line, e.start.col, e.stop.line, e.stop.col, codeRank e.code]

def keyLt : List Nat → List Nat → Bool
  | a :: as, b :: bs => if a < b then true else if b < a then false else keyLt as bs
  | _, _ => false

/-- `ErrorSet` is a `BTreeSet`: sorted, no duplicates -/
def insertErr (e : Err) : List Err → List Err
  | [] => [e]
  | x :: xs =>
    if keyLt (errKey e) (errKey x) then e :: x :: xs
    else if errKey e == errKey x then x :: xs
    else x :: insertErr e xs

def showResult (r : Result) : String :=
  let toks := if r.toks.isEmpty then "-" else ";".intercalate (r.toks.map showTok)
  let errs := r.errs.foldl (fun acc e => insertErr e acc) []
  let es := if errs.isEmpty then "-" else
    ",".intercalate (errs.map fun e => showSpan e.start e.stop ++ ":" ++ codeName e.code)
  let tail := match r.fin with
    | .ok => ""
    | .panic => " P"
    | .fuel => " FUEL"
  s!"T {toks} E {es}{tail}"

def step (st : Unit) (line : String) : Unit × String :=
  match words line with
  | ["lex", h] => (st, showResult (tokenize (bytesOfHex h)))
  -- `entry <classes>`: classes separated by `/`, each `<isMainType>:<nClassTparams>:<members>`, members separated by
  -- `,`, each `<isMainName><isMethod><nParams><nTparams>` (4 digits) -> `1` iff the module has an entry point
  | ["entry", spec] =>
    let digit (c : Char) : Nat := c.toNat - 48
    let classes := (spec.splitOn "/").filterMap fun cs =>
      match cs.splitOn ":" with
      | [mt, ct, ms] =>
        let members := (ms.splitOn ",").filterMap fun m =>
          match m.toList with
          | [a, b, c, d] => some (SamVerif.EntryPoint.Member.mk (a == '1') (b == '1') (digit c) (List.range (digit d)))
          | _ => none
        some (SamVerif.EntryPoint.Class.mk (mt == "1") (List.range ct.toNat!) members)
      | _ => none
    (st, if SamVerif.EntryPoint.moduleHasEntry classes then "1" else "0")
  | _ => (st, "bad-op")

def run : IO Unit := runLoop () step

end Driver.C05

def main (_args : List String) : IO UInt32 := do
  Driver.C05.run
  return 0
