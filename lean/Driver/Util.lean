/-! Shared helpers for the line-protocol drivers (core Lean only). -/
namespace Driver

def hexDigit (n : Nat) : Char :=
  if n < 10 then Char.ofNat (48 + n) else Char.ofNat (87 + n)

def hexOfBytes (bs : List UInt8) : String :=
  if bs.isEmpty then "-" else
  String.ofList (bs.flatMap fun b => [hexDigit (b.toNat / 16), hexDigit (b.toNat % 16)])

def hexVal (c : Char) : Nat :=
  if '0' ≤ c ∧ c ≤ '9' then c.toNat - 48
  else if 'a' ≤ c ∧ c ≤ 'f' then c.toNat - 87
  else if 'A' ≤ c ∧ c ≤ 'F' then c.toNat - 55
  else 0

partial def bytesOfHexChars : List Char → List UInt8
  | a :: b :: rest => UInt8.ofNat (hexVal a * 16 + hexVal b) :: bytesOfHexChars rest
  | _ => []

def bytesOfHex (s : String) : List UInt8 :=
  if s == "-" then [] else bytesOfHexChars s.toList

def words (line : String) : List String :=
  (line.trimAscii.toString.splitOn " ").filter (· ≠ "")

/-- Reads stdin line by line, threading a state through `step`, printing one answer per line. -/
partial def loop {σ : Type} (h : IO.FS.Stream) (out : IO.FS.Stream) (st : σ)
    (step : σ → String → σ × String) : IO Unit := do
  let line ← h.getLine
  if line.isEmpty then return ()
  if line.trimAscii.toString.isEmpty then loop h out st step else
  let (st', ans) := step st line
  out.putStrLn ans
  loop h out st' step

def runLoop {σ : Type} (init : σ) (step : σ → String → σ × String) : IO Unit := do
  let h ← IO.getStdin
  let out ← IO.getStdout
  loop h out init step
  out.flush

end Driver
