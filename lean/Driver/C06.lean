import SamVerif.Model.IntRange
import SamVerif.Model.Assign
import SamVerif.Model.Gates
import Driver.Util
/-! Line-protocol driver for property C06 (model side).
  tok <raw>*            raw ::= i<digits> | m | o<k>        -> `T <tok,...> E <flags> V <values>`
  asg <ty> <ty>                                             -> `a=. m=. s=. p=..`
  slv <tps> <concrete> <generic>                            -> `s=. g=. e=.`
  join if|match <ty>*   branch-body types of a chain / of match arms -> 1 (accepted) | 0
  vis member|field <curMod> <curClass> <cMod> <cId> <cPrivate> <memberPublic|->   -> 1 (resolved) | 0
  imp 0|1|-             imported toplevel is public / private / absent  -> 1 | 0
  tya <m.i=k,...> <ty>  type-argument arity validation                  -> 1 | 0
  conf <sig>* | <sig>*  expected | declared; sig ::= name/pub/[n=ty]*[n=-]*/ty  -> 1 | 0
  bnd <targ> <bound> <super>*                                           -> 1 | 0
  abs <m.i=0|1,...> <enforce 0|1> <ty>  abstract-type gate                   -> 1 | 0
  confi <tp,..> <targ>* | <iface sig>* | <declared sig>*                 -> 1 | 0
  nam class <name=mod,..|-> <cur> <m.i=0|1,..> <name> ; nam module <m,..> <m> ;
  nam member <n=pub,..|-> <n=pub,..|-> <name>                            -> 1 | 0
  kind callee <ty> | kind object <bounded generics> <ty> | kind fieldtargs <n|-> | kind super <m.i=0|1,..> <m.i=0,..> | kind imember <isClass> <m|f…>  -> 1 | 0
  supm …  same, memoised variant (repair of C05-F6)
  sup <m.i/tp,tp/ty|ty ...>* ? <ty>   transitive super types -> c=<cyclic> x=<fuel exhausted> <ty>|<ty>…
Type syntax (prefix, no blanks): a0 a1 | u b i | g<n>; | n<s>,<m>,<id>(<ty>*) | f(<ty>*)<ty> -/
namespace Driver.C06
open SamVerif Driver

def parseRaw (s : String) : Option IntRange.Raw :=
  match s.toList with
  | ['m'] => some .minus
  | 'i' :: ds => (String.ofList ds).toNat?.map .int
  | 'o' :: ds => (String.ofList ds).toNat?.map .other
  | _ => none

def showRaw : IntRange.Raw → String
  | .int v => "i" ++ toString v
  | .minus => "m"
  | .other k => "o" ++ toString k

def showTok : IntRange.Tok → String
  | .raw r => showRaw r
  | .negMin => "n"

def commaOrDash (l : List String) : String := if l.isEmpty then "-" else ",".intercalate l

def takeNum (cs : List Char) : Option (Nat × List Char) :=
  let ds := cs.takeWhile Char.isDigit
  if ds.isEmpty then none else (String.ofList ds).toNat?.map (·, cs.dropWhile Char.isDigit)

open Assign in
mutual
partial def parseTy : List Char → Option (Ty × List Char)
  | 'a' :: '0' :: r => some (.any false, r)
  | 'a' :: '1' :: r => some (.any true, r)
  | 'u' :: r => some (.prim .unit, r)
  | 'b' :: r => some (.prim .bool, r)
  | 'i' :: r => some (.prim .int, r)
  | 'g' :: r =>
    match takeNum r with
    | some (n, ';' :: r') => some (.generic n, r')
    | _ => none
  | 'n' :: s :: ',' :: r =>
    match takeNum r with
    | some (m, ',' :: r1) =>
      match takeNum r1 with
      | some (i, '(' :: r2) =>
        match parseList r2 with
        | some (ts, r3) => some (.nominal (s == '1') m i ts, r3)
        | none => none
      | _ => none
    | _ => none
  | 'f' :: '(' :: r =>
    match parseList r with
    | some (as, r1) =>
      match parseTy r1 with
      | some (t, r2) => some (.fn as t, r2)
      | none => none
    | none => none
  | _ => none
partial def parseList : List Char → Option (List Ty × List Char)
  | ')' :: r => some ([], r)
  | cs =>
    match parseTy cs with
    | some (t, r) =>
      match parseList r with
      | some (ts, r') => some (t :: ts, r')
      | none => none
    | none => none
end

def parseTyS (s : String) : Option Assign.Ty :=
  match parseTy s.toList with
  | some (t, []) => some t
  | _ => none

open Assign in
partial def showTy : Ty → String
  | .any p => if p then "a1" else "a0"
  | .prim .unit => "u"
  | .prim .bool => "b"
  | .prim .int => "i"
  | .generic n => "g" ++ toString n ++ ";"
  | .nominal s m i ts =>
    "n" ++ (if s then "1" else "0") ++ "," ++ toString m ++ "," ++ toString i ++ "(" ++
      String.join (ts.map showTy) ++ ")"
  | .fn as r => "f(" ++ String.join (as.map showTy) ++ ")" ++ showTy r

def bit (b : Bool) : String := if b then "1" else "0"

def insertSorted (kv : Nat × String) : List (Nat × String) → List (Nat × String)
  | [] => [kv]
  | x :: xs => if kv.1 ≤ x.1 then kv :: x :: xs else x :: insertSorted kv xs

def parseArity (s : String) : Gates.ArityTable :=
  (s.splitOn ",").filterMap fun e =>
    match e.splitOn "=" with
    | [mi, k] =>
      match mi.splitOn "." with
      | [m, i] =>
        match m.toNat?, i.toNat?, k.toNat? with
        | some m, some i, some k => some ((m, i), k)
        | _, _, _ => none
      | _ => none
    | _ => none

/-- `[n=ty][n=-]…` -/
partial def parseTParams (cs : List Char) (acc : List (Nat × Option Assign.Ty)) :
    Option (List (Nat × Option Assign.Ty)) :=
  match cs with
  | [] => some acc.reverse
  | '[' :: r =>
    match takeNum r with
    | some (n, '=' :: '-' :: ']' :: r') => parseTParams r' ((n, none) :: acc)
    | some (n, '=' :: r') =>
      match parseTy r' with
      | some (t, ']' :: r'') => parseTParams r'' ((n, some t) :: acc)
      | _ => none
    | _ => none
  | _ => none

def parseSig (s : String) : Option Gates.MSig :=
  match s.splitOn "/" with
  | [n, p, tps, ty] =>
    match n.toNat?, parseTParams tps.toList [], parseTyS ty with
    | some n, some tps, some ty => some { name := n, isPublic := p == "1", tparams := tps, ty := ty }
    | _, _, _ => none
  | _ => none

def parsePairs (s : String) : List (Nat × Nat) :=
  if s == "-" then [] else
  (s.splitOn ",").filterMap fun e =>
    match e.splitOn "=" with
    | [a, b] => match a.toNat?, b.toNat? with
      | some a, some b => some (a, b)
      | _, _ => none
    | _ => none

def parseDecl (s : String) : Option Gates.Decl :=
  match s.splitOn "/" with
  | [mi, tps, sups] =>
    match mi.splitOn "." with
    | [m, i] =>
      match m.toNat?, i.toNat? with
      | some m, some i =>
        let ss := if sups == "-" then [] else (sups.splitOn "|").map parseTyS
        if ss.all Option.isSome then
          some { key := (m, i), tparams := (tps.splitOn ",").filterMap String.toNat?, supers := ss.filterMap id }
        else none
      | _, _ => none
    | _ => none
  | _ => none

def step (_ : Unit) (line : String) : Unit × String :=
  match words line with
  | "tok" :: raws =>
    let rs := raws.map parseRaw
    if rs.all Option.isSome then
      let (ts, es) := IntRange.produce (rs.filterMap id)
      let vals := ts.filterMap fun t => (IntRange.parserValue t).map toString
      ((), s!"T {commaOrDash (ts.map showTok)} E {commaOrDash (es.map bit)} V {commaOrDash vals}")
    else ((), "bad-raw")
  | ["asg", a, b] =>
    match parseTyS a, parseTyS b with
    | some x, some y =>
      let m := match Assign.meet x y with
        | some t => showTy t
        | none => "none"
      ((), s!"a={bit (Assign.assignable x y)} m={m} s={bit (Assign.sameType x y)} p={bit (Assign.containsPlaceholder x)}{bit (Assign.containsPlaceholder y)}")
    | _, _ => ((), "bad-type")
  | "join" :: kind :: tys =>
    let ts := tys.map parseTyS
    if ts.all Option.isSome then
      let l := ts.filterMap id
      ((), bit (if kind == "match" then Assign.matchArmsOk l else Assign.ifChainOk l))
    else ((), "bad-type")
  | ["vis", kind, cm, cc, m, i, priv, pub] =>
    match cm.toNat?, cc.toNat?, m.toNat?, i.toNat? with
    | some cm, some cc, some m, some i =>
      let cx : Gates.Ctx := ⟨cm, cc⟩
      let c : Gates.ClassRef := ⟨m, i, priv == "1"⟩
      let ms : List (Nat × Bool) := if pub == "-" then [] else [(7, pub == "1")]
      ((), bit (if kind == "field" then Gates.fieldResolved cx c ms 7 else Gates.memberResolved cx c ms 7))
    | _, _, _, _ => ((), "bad-op")
  | ["imp", e] =>
    ((), bit (Gates.importOk (if e == "-" then none else some (e == "1"))))
  | ["tya", tab, ty] =>
    match parseTyS ty with
    | some t => ((), bit (Gates.tyArgsOk (parseArity tab) t))
    | none => ((), "bad-type")
  | "conf" :: rest =>
    let exp := (rest.takeWhile (· != "|")).map parseSig
    let dec := ((rest.dropWhile (· != "|")).drop 1).map parseSig
    if exp.all Option.isSome && dec.all Option.isSome then
      ((), bit (Gates.classConforms (exp.filterMap id) (dec.filterMap id)))
    else ((), "bad-sig")
  | "bnd" :: targ :: bound :: supers =>
    match parseTyS targ, parseTyS bound with
    | some t, some b =>
      let ss := supers.map parseTyS
      if ss.all Option.isSome then ((), bit (Gates.boundOk t (ss.filterMap id) b)) else ((), "bad-type")
    | _, _ => ((), "bad-type")
  | ["abs", tab, enf, ty] =>
    match parseTyS ty with
    | some t =>
      let kt : Gates.KindTable := (parseArity tab).map fun e => (e.1, e.2 == 1)
      ((), bit (Gates.concreteOk kt (enf == "1") t))
    | none => ((), "bad-type")
  | "confi" :: tps :: rest =>
    let targs := (rest.takeWhile (· != "|")).map parseTyS
    let rest2 := (rest.dropWhile (· != "|")).drop 1
    let iface := (rest2.takeWhile (· != "|")).map parseSig
    let dec := ((rest2.dropWhile (· != "|")).drop 1).map parseSig
    if targs.all Option.isSome && iface.all Option.isSome && dec.all Option.isSome then
      ((), bit (Gates.classConformsInst ((tps.splitOn ",").filterMap String.toNat?) (targs.filterMap id)
        (iface.filterMap id) (dec.filterMap id)))
    else ((), "bad-sig")
  | ["nam", "class", imps, cur, tab, name] =>
    match cur.toNat?, name.toNat? with
    | some cur, some name =>
      let t : List ((Nat × Nat) × Bool) := (parseArity tab).map fun e => (e.1, e.2 == 1)
      ((), bit (Gates.classIdResolved (parsePairs imps) cur t name))
    | _, _ => ((), "bad-op")
  | ["nam", "module", mods, m] =>
    match m.toNat? with
    | some m => ((), bit (Gates.moduleResolved ((mods.splitOn ",").filterMap String.toNat?) m))
    | none => ((), "bad-op")
  | ["nam", "member", ms, fs, name] =>
    match name.toNat? with
    | some name =>
      let conv := fun (l : List (Nat × Nat)) => l.map fun p => (p.1, p.2 == 1)
      ((), bit (Gates.memberAccessResolved ⟨1, 1⟩ ⟨1, 2, false⟩ (conv (parsePairs ms)) (conv (parsePairs fs)) name))
    | none => ((), "bad-op")
  | "supm" :: rest =>
    let decls := (rest.takeWhile (· != "?")).map parseDecl
    match (rest.dropWhile (· != "?")).drop 1 with
    | [q] =>
      match parseTyS q with
      | some t =>
        if decls.all Option.isSome then
          let ds := decls.filterMap id
          let r := Gates.resolveSupersM ds t
          -- hypothesis `WfTab` of cycle_detected_memo: every declared super type is a nominal type
          let wf := ds.all fun d => d.supers.all fun s => (Gates.keyOf s).isSome
          ((), s!"c={bit r.2.1} x={bit r.2.2}{if wf then "" else " NOT-WF"} {if r.1.isEmpty then "-" else "|".intercalate (r.1.map showTy)}")
        else ((), "bad-decl")
      | none => ((), "bad-type")
    | _ => ((), "bad-op")
  | "sup" :: rest =>
    let decls := (rest.takeWhile (· != "?")).map parseDecl
    match (rest.dropWhile (· != "?")).drop 1 with
    | [q] =>
      match parseTyS q with
      | some t =>
        if decls.all Option.isSome then
          let r := Gates.resolveSupers (decls.filterMap id) t
          ((), s!"c={bit r.2.1} x={bit r.2.2} {if r.1.isEmpty then "-" else "|".intercalate (r.1.map showTy)}")
        else ((), "bad-decl")
      | none => ((), "bad-type")
    | _ => ((), "bad-op")
  | ["kind", "callee", ty] =>
    match parseTyS ty with
    | some t => ((), bit (Gates.calleeOk t))
    | none => ((), "bad-type")
  | ["kind", "object", bg, ty] =>
    match parseTyS ty with
    | some t => ((), bit (Gates.memberObjectOk ((bg.splitOn ",").filterMap String.toNat?) t))
    | none => ((), "bad-type")
  | ["kind", "fieldtargs", g] => ((), bit (Gates.fieldTyArgsOk g.toNat?))
  | ["kind", "super", tab, sup] =>
    let kt : Gates.KindTable := (parseArity tab).map fun e => (e.1, e.2 == 1)
    let ks := (parseArity sup).map (·.1)
    ((), bit (Gates.superKindsOk kt (kt.map (·.1)) ks))
  | ["kind", "imember", cls, ms] =>
    ((), bit (Gates.interfaceMembersOk (cls == "1") (ms.toList.map (· == 'm'))))
  | ["slv", tps, c, g] =>
    let ns := ((tps.splitOn ",").filterMap String.toNat?)
    match parseTyS c, parseTyS g with
    | some x, some y =>
      let (s, sg, e) := Assign.solveTypeConstraints ns x y
      let kv := s.foldl (fun acc p => insertSorted (p.1, showTy p.2) acc) []
      ((), s!"s={commaOrDash (kv.map fun p => toString p.1 ++ ":" ++ p.2)} g={showTy sg} e={bit e}")
    | _, _ => ((), "bad-type")
  | _ => ((), "bad-op")

def run : IO Unit := runLoop () step

end Driver.C06

def main (_args : List String) : IO UInt32 := do
  Driver.C06.run
  return 0
