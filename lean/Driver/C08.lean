import SamVerif.Model.Fmt
import Driver.Util
/-! Protocol `fmt-expr` (C08), model side.
`E <width> <hex text>`: lex the fragment text (driver-side character lexer + the model's
`mergeMinInt`), `parseE` → T0, `printE` → token sequence, re-lex, `parseE` → T1, `RT T0`.
`S <width> <hex text>`: a single string-literal token through `parseStr` / `printStr`.
Answers: `<T0>;<tokens>;<T1|rerr>;rt=<0|1>` or `perr`. The width is irrelevant to the model (token level). -/
namespace Driver.C08
open SamVerif.Fmt Driver

def ops : List (String × BinOp) :=
  [("*", .mul), ("/", .div), ("%", .mod), ("+", .plus), ("-", .minus), ("::", .concat),
   ("<", .lt), ("<=", .le), (">", .gt), (">=", .ge), ("==", .eq), ("!=", .ne), ("&&", .and), ("||", .or)]

def opText (o : BinOp) : String := ((ops.find? (·.2 == o)).map (·.1)).getD "?"
def opOf (s : String) : Option BinOp := (ops.find? (·.1 == s)).map (·.2)

def isIdStart (c : Char) : Bool := c.isAlpha
def isIdChar (c : Char) : Bool := c.isAlphanum

/-- character-level lexer of the fragment (not part of the proved model). -/
partial def lexWords : List Char → List String → Option (List String)
  | [], acc => some acc.reverse
  | c :: rest, acc =>
    if c == ' ' || c == '\n' || c == '\t' then lexWords rest acc
    else if c == '(' || c == ')' || c == '+' || c == '*' || c == '/' || c == '%' || c == '-' then
      lexWords rest (c.toString :: acc)
    else if c.isDigit then
      let ds := (c :: rest).takeWhile Char.isDigit
      lexWords ((c :: rest).dropWhile Char.isDigit) (String.ofList ds :: acc)
    else if isIdStart c then
      let ds := (c :: rest).takeWhile isIdChar
      lexWords ((c :: rest).dropWhile isIdChar) (String.ofList ds :: acc)
    else match c, rest with
      | '!', '=' :: r => lexWords r ("!=" :: acc)
      | '!', r => lexWords r ("!" :: acc)
      | '<', '=' :: r => lexWords r ("<=" :: acc)
      | '<', r => lexWords r ("<" :: acc)
      | '>', '=' :: r => lexWords r (">=" :: acc)
      | '>', r => lexWords r (">" :: acc)
      | '=', '=' :: r => lexWords r ("==" :: acc)
      | '&', '&' :: r => lexWords r ("&&" :: acc)
      | '|', '|' :: r => lexWords r ("||" :: acc)
      | ':', ':' :: r => lexWords r ("::" :: acc)
      | _, _ => none

def isNum (s : String) : Bool := !s.isEmpty && s.toList.all Char.isDigit

/-- words → tokens, through the model's `mergeMinInt`; atoms are numbered by `tab`. -/
def toToks (words : List String) : List Tok × List String :=
  let raw : List RawTok := words.zipIdx.map fun (w, i) =>
    if w == "-" then .minus else if isNum w then .int w.toNat! else .other i
  let merged := mergeMinInt raw
  merged.foldl (fun (acc : List Tok × List String) t =>
    let (ts, tab) := acc
    let atom (s : String) : List Tok × List String :=
      match tab.idxOf? s with
      | some i => (ts ++ [.atom i], tab)
      | none => (ts ++ [.atom tab.length], tab ++ [s])
    match t with
    | .minus => (ts ++ [.op .minus], tab)
    | .int n => atom (toString n)
    | .minInt => atom "-2147483648"
    | .other k =>
      let w := words.getD k "?"
      if w == "(" then (ts ++ [.lp], tab) else if w == ")" then (ts ++ [.rp], tab)
      else if w == "!" then (ts ++ [.bang], tab)
      else match opOf w with
        | some o => (ts ++ [.op o], tab)
        | none => atom w) ([], [])

def tokText (tab : List String) : Tok → String
  | .lp => "(" | .rp => ")" | .bang => "!"
  | .op o => opText o
  | .atom a => tab.getD a "?"

partial def dump (tab : List String) : Expr → String
  | .atom a => tab.getD a "?"
  | .unary .not e => "(! " ++ dump tab e ++ ")"
  | .unary .neg e => "(neg " ++ dump tab e ++ ")"
  | .binary o l r => "(" ++ opText o ++ " " ++ dump tab l ++ " " ++ dump tab r ++ ")"

def textOfHex (h : String) : String := (String.fromUTF8? (ByteArray.mk (bytesOfHex h).toArray)).getD ""

/-- parse with the model's budget and with a much larger one; a difference means the budget of
`parseE` was too small (reported as `fuel`, never observed). -/
def parseChecked (ts : List Tok) : Except String (Option Expr) :=
  let r1 := parseE ts
  let r2 := parseFuel (4 * fuelFor ts) ts
  if r1 == r2 then .ok r1 else .error "fuel"

def stepE (text : String) : String :=
  match lexWords text.toList [] with
  | none => "perr"
  | some words =>
    let (ts, tab) := toToks words
    match parseChecked ts with
    | .error m => m
    | .ok none => "perr"
    | .ok (some e) =>
      let out := printE e
      let outText := " ".intercalate (out.map (tokText tab))
      -- re-lex the rendered text (so that `- 2147483648` is merged again) and re-parse
      let t1 := match lexWords outText.toList [] with
        | none => "rerr"
        | some w2 =>
          let (ts2, tab2) := toToks w2
          match parseChecked ts2 with
          | .error m => m
          | .ok none => "rerr"
          | .ok (some e2) => dump tab2 e2
      s!"{dump tab e};{outText};{t1};rt={if RT e then 1 else 0}"

def hexOfString (s : String) : String := hexOfBytes s.toUTF8.toList

def stepS (text : String) : String :=
  let cs := text.trimAscii.toString.toList
  match lexStr cs with
  | some (content, []) =>
    if !validEscape (('"' :: content) ++ ['"']) then "perr" else
    let lit := unescapeQuotes content
    let printed := printStr lit
    let t1 := match lexStr printed with
      | some (c2, []) =>
        if validEscape (('"' :: c2) ++ ['"']) then s!"(s {hexOfString (String.ofList (unescapeQuotes c2))})" else "rerr"
      | _ => "rerr"
    s!"(s {hexOfString (String.ofList lit)});{String.ofList printed};{t1};rt={if hasEscapedQuote content then 0 else 1}"
  | _ => "perr"

def step (_ : Unit) (line : String) : Unit × String :=
  match words line with
  | ["E", _, h] => ((), stepE (textOfHex h))
  | ["S", _, h] => ((), stepS (textOfHex h))
  | _ => ((), "bad-op")

def run : IO Unit := runLoop () step

end Driver.C08

def main (_args : List String) : IO UInt32 := do
  Driver.C08.run
  return 0
