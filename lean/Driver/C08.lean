import SamVerif.Model.FmtFull
import SamVerif.Model.FmtPat
import SamVerif.Model.FmtLists
import SamVerif.Model.FmtDoc
import Driver.C08Legacy
import Driver.Util
/-! Protocol `fmt-expr` (C08), model side.
`E <width> <hex text>`: lex the fragment text (driver-side character lexer + token grouping + the
model's `mergeMinInt`), `parseE` → T0, `printE` → token sequence, re-lex, `parseE` → T1, and whether `regroup T0 = T0` (printed as `rt=`).
`S <width> <hex text>`: a single string-literal token through `parseStr` / `printStr`.
Answers: `<T0>;<tokens>;<T1|rerr>;rt=<0|1>` or `perr`. The width is irrelevant to the model (token level).
`X <width> <hex text>`: the *document* of the parsed expression (`Model/FmtDoc.lean`, `docOf`) in the
prefix notation of the printer hook, whether all leaf documents satisfy `Leaves.Ok` (`agreeB`), the
characters of `printE`, and the model's own layout `prettyPrint width (docOf e)` (`Model/Doc.lean`):
`<T0>;<doc>;lv=<ok|bad>;<hex chars>;<hex layout>` or `perr`.

Opaque units of the model and the concrete shapes the driver recognises for them:
`post`   `. name`  |  `( w , … )` directly after something that ends an expression (call with atom arguments)
`atom`   identifiers, ints, `true`/`false`/`this`, `{ w }` (block)
`kwIf`   `if w { w } else { w }`          `kwMatch`  `match w { U ( w|_ ) -> w , … }`
`lam`    `( x , … ) ->`                                                      (w = a single word) -/
namespace Driver.C08
open SamVerif.Fmt (BinOp UOp RawTok mergeMinInt lexStr validEscape unescapeQuotes printStr)
open SamVerif.FmtFull Driver

def ops : List (String × BinOp) :=
  [("*", .mul), ("/", .div), ("%", .mod), ("+", .plus), ("-", .minus), ("::", .concat),
   ("<", .lt), ("<=", .le), (">", .gt), (">=", .ge), ("==", .eq), ("!=", .ne), ("&&", .and), ("||", .or)]

def opText (o : BinOp) : String := ((ops.find? (·.2 == o)).map (·.1)).getD "?"
def opOf (s : String) : Option BinOp := (ops.find? (·.1 == s)).map (·.2)

def isIdStart (c : Char) : Bool := c.isAlpha
def isIdChar (c : Char) : Bool := c.isAlphanum

/-- character-level lexer of the fragment (not part of the proved model). -/
partial def lexWords : List Char → List String → Option (List String)
  | [], acc => some acc.reverse
  | c :: rest, acc =>
    if c == ' ' || c == '\n' || c == '\t' then lexWords rest acc
    else if c == '-' && rest.head? == some '>' then lexWords (rest.drop 1) ("->" :: acc)
    else if c == '(' || c == ')' || c == '+' || c == '*' || c == '/' || c == '%' || c == '-'
        || c == '{' || c == '}' || c == ',' || c == '.' || c == '_' || c == ';' then
      lexWords rest (c.toString :: acc)
    else if c.isDigit then
      let ds := (c :: rest).takeWhile Char.isDigit
      lexWords ((c :: rest).dropWhile Char.isDigit) (String.ofList ds :: acc)
    else if isIdStart c then
      let ds := (c :: rest).takeWhile isIdChar
      lexWords ((c :: rest).dropWhile isIdChar) (String.ofList ds :: acc)
    else match c, rest with
      | '!', '=' :: r => lexWords r ("!=" :: acc)
      | '!', r => lexWords r ("!" :: acc)
      | '<', '=' :: r => lexWords r ("<=" :: acc)
      | '<', r => lexWords r ("<" :: acc)
      | '>', '=' :: r => lexWords r (">=" :: acc)
      | '>', r => lexWords r (">" :: acc)
      | '=', '=' :: r => lexWords r ("==" :: acc)
      | '=', r => lexWords r ("=" :: acc)
      | '&', '&' :: r => lexWords r ("&&" :: acc)
      | '|', '|' :: r => lexWords r ("||" :: acc)
      | '|', r => lexWords r ("|" :: acc)
      | ':', ':' :: r => lexWords r ("::" :: acc)
      | ':', r => lexWords r (":" :: acc)
      | _, _ => none

def isNum (s : String) : Bool := !s.isEmpty && s.toList.all Char.isDigit
/-- the lexer's keywords (lexer.rs `LogosToken`); only `true`, `false`, `this` are expressions. -/
def keywords : List String :=
  ["import", "from", "class", "interface", "val", "function", "method", "as", "private", "protected",
   "internal", "public", "if", "then", "else", "match", "return", "int", "string", "bool", "unit", "self",
   "const", "let", "var", "type", "constructor", "destructor", "extends", "implements", "exports", "assert"]

def isWordAtom (s : String) : Bool :=
  !s.isEmpty && (s.toList.head!.isAlphanum || s.startsWith "-2") && !keywords.contains s
    && (!(s.toList.all Char.isDigit) || (s.toNat! ≤ 2147483647 && (s.length == 1 || !s.startsWith "0")))
def isLowerId (s : String) : Bool :=
  !s.isEmpty && s.toList.head!.isLower && s.toList.all Char.isAlphanum && !keywords.contains s && s != "true" && s != "false" && s != "this"
def isUpperId (s : String) : Bool := !s.isEmpty && s.toList.head!.isUpper

/-- `- 2147483648` → one word, through the model's `mergeMinInt`. -/
def mergeWords (words : List String) : List String :=
  let raw : List RawTok := words.zipIdx.map fun (w, i) =>
    if w == "-" then .minus else if isNum w && (w.length == 1 || !w.startsWith "0") then .int w.toNat! else .other i
  (mergeMinInt raw).map fun
    | .minus => "-"
    | .int n => toString n
    | .minInt => "-2147483648"
    | .other k => words.getD k "?"

/-- one entry per opaque unit: how it is printed and how the harness dumps it. -/
structure Entry where
  text : String
  pre : String
  suf : String
  /-- the documents of the unit (`Leaves` of `Model/FmtDoc.lean`): atom `[d]`, member `[name, targs]`,
  pattern `[d]`, `let` `[pattern, annotation]`, lambda `[parameters]`. -/
  leaf : List SamVerif.Doc.Doc := []
  deriving BEq

section LeafDocs
open SamVerif.Doc (Doc concatV)
def sdoc (s : String) : Doc := .nstext s.toList
def tdoc (s : String) : Doc := .text s.toList
/-- `comma_sep_list` without ending comments. -/
def commaSepD : List Doc → Doc
  | [] => .nil
  | [d] => d
  | d :: rest => concatV [d, tdoc ",", .line, commaSepD rest]
end LeafDocs

abbrev Tab := List Entry

def intern (tab : Tab) (e : Entry) : Tab × Nat :=
  match tab.idxOf? e with
  | some i => (tab, i)
  | none => (tab ++ [e], tab.length)

/-- `x , y , z )` → the words before the closing parenthesis, if they are single words separated by commas. -/
def commaList (ok : String → Bool) : List String → Option (List String × List String)
  | ")" :: rest => some ([], rest)
  | w :: ")" :: rest => if ok w then some ([w], rest) else none
  | w :: "," :: rest =>
    if ok w then (commaList ok rest).bind fun (ws, r) => if ws.isEmpty then none else some (w :: ws, r) else none
  | _ => none

/-- `x , y : T , z )` → lambda parameters (name, optional one-word type) up to the closing parenthesis. -/
def lambdaParams : List String → Option (List (String × Option String) × List String)
  | ")" :: rest => some ([], rest)
  | w :: ":" :: t :: ")" :: rest => some ([(w, some t)], rest)
  | w :: ")" :: rest => some ([(w, none)], rest)
  | w :: ":" :: t :: "," :: rest =>
    (lambdaParams rest).bind fun (ps, r) => if ps.isEmpty then none else some ((w, some t) :: ps, r)
  | w :: "," :: rest =>
    (lambdaParams rest).bind fun (ps, r) => if ps.isEmpty then none else some ((w, none) :: ps, r)
  | _ => none

def isTypeWord (s : String) : Bool := s == "int" || s == "bool" || s == "unit" || isUpperId s
/-- `annotation_to_doc` of a one-word type: primitive keyword, or an identifier without type arguments
(`Concat(name, optional_targs(None))`). -/
def tyDoc (t : String) : SamVerif.Doc.Doc := if isUpperId t then .concat (sdoc t) .nil else tdoc t

/-! ### `P` lines: patterns through `Model/FmtPat.lean` -/
section Patterns
open SamVerif.FmtPat

def internS (tab : List String) (s : String) : List String × Nat :=
  match tab.idxOf? s with
  | some i => (tab, i)
  | none => (tab ++ [s], tab.length)

def ptoks (words : List String) : List PTok × List String :=
  words.foldl (fun (acc : List PTok × List String) w =>
    let (ts, tab) := acc
    let named (mk : Nat → PTok) := let (tb, i) := internS tab w; (ts ++ [mk i], tb)
    if w == "(" then (ts ++ [.lp], tab) else if w == ")" then (ts ++ [.rp], tab)
    else if w == "{" then (ts ++ [.lb], tab) else if w == "}" then (ts ++ [.rb], tab)
    else if w == "," then (ts ++ [.comma], tab) else if w == "|" then (ts ++ [.bar], tab)
    else if w == "_" then (ts ++ [.us], tab) else if w == "as" then (ts ++ [.kwAs], tab)
    else if isLowerId w then named .lower else if isUpperId w then named .upper else named .other) ([], [])

def ptokText (tab : List String) : PTok → String
  | .lp => "(" | .rp => ")" | .lb => "{" | .rb => "}" | .comma => "," | .bar => "|" | .us => "_" | .kwAs => "as"
  | .lower n | .upper n | .other n => tab.getD n "?"

mutual
partial def dumpP (tab : List String) : Pat → String
  | .id n => s!"(pid {tab.getD n "?"})"
  | .wild => "_"
  | .variant t => s!"(pvariant {tab.getD t "?"})"
  | .variantT t ps => s!"(pvariant {tab.getD t "?"} (ptuple{dumpPs tab ps}))"
  | .tuple ps => s!"(ptuple{dumpPs tab ps})"
  | .obj fs => s!"(pobj{dumpFs tab fs})"
partial def dumpO (tab : List String) : OPat → String
  | .one p => dumpP tab p
  | .alt p rest => "(por " ++ dumpP tab p ++ dumpAlts tab rest ++ ")"
partial def dumpAlts (tab : List String) : OPat → String
  | .one p => " " ++ dumpP tab p
  | .alt p rest => " " ++ dumpP tab p ++ dumpAlts tab rest
partial def dumpPs (tab : List String) : Pats → String
  | .one o => " " ++ dumpO tab o
  | .cons o rest => " " ++ dumpO tab o ++ dumpPs tab rest
partial def dumpFs (tab : List String) : Fields → String
  | .oneS f => s!" ({tab.getD f "?"} short (pid {tab.getD f "?"}))"
  | .oneA f o => s!" ({tab.getD f "?"} as {dumpO tab o})"
  | .consS f rest => s!" ({tab.getD f "?"} short (pid {tab.getD f "?"}))" ++ dumpFs tab rest
  | .consA f o rest => s!" ({tab.getD f "?"} as {dumpO tab o})" ++ dumpFs tab rest
end

/-! `matching_pattern_to_document` (no comments). -/
mutual
partial def docP (tab : List String) : Pat → SamVerif.Doc.Doc
  | .id n => sdoc (tab.getD n "?")
  | .wild => tdoc "_"
  | .variant t => sdoc (tab.getD t "?")
  | .variantT t ps => SamVerif.Doc.concatV [sdoc (tab.getD t "?"), SamVerif.FmtDoc.parenD (commaSepD (docPs tab ps))]
  | .tuple ps => SamVerif.FmtDoc.parenD (commaSepD (docPs tab ps))
  | .obj fs => SamVerif.FmtDoc.bracesD (commaSepD (docFs tab fs))
partial def docO (tab : List String) : OPat → SamVerif.Doc.Doc
  | .one p => docP tab p
  | .alt p rest => SamVerif.Doc.concatV (docP tab p :: docAlts tab rest)
partial def docAlts (tab : List String) : OPat → List SamVerif.Doc.Doc
  | .one p => [tdoc " | ", docP tab p]
  | .alt p rest => tdoc " | " :: docP tab p :: docAlts tab rest
partial def docPs (tab : List String) : Pats → List SamVerif.Doc.Doc
  | .one o => [docO tab o]
  | .cons o rest => docO tab o :: docPs tab rest
partial def docFs (tab : List String) : Fields → List SamVerif.Doc.Doc
  | .oneS f => [sdoc (tab.getD f "?")]
  | .oneA f o => [SamVerif.Doc.concatV [sdoc (tab.getD f "?"), tdoc " as ", docO tab o]]
  | .consS f rest => sdoc (tab.getD f "?") :: docFs tab rest
  | .consA f o rest => SamVerif.Doc.concatV [sdoc (tab.getD f "?"), tdoc " as ", docO tab o] :: docFs tab rest
end

/-- the lexer splits `||`; inside patterns two bars never meet, so `||` is not a pattern token. -/
def stepP (text : String) : String :=
  match lexWords text.toList [] with
  | none => "perr"
  | some words =>
    if words.any (· == "||") then "perr" else
    let (ts, tab) := ptoks words
    -- `= x ;` follows the pattern in the wrapped statement
    match parsePattern (ts ++ [.other 1000000]) with
    | some (o, [.other 1000000]) =>
      let out := printO o
      let outText := " ".intercalate (out.map (ptokText tab))
      let t1 := match parsePattern (out ++ [.other 1000000]) with
        | some (o2, [.other 1000000]) => dumpO tab o2
        | _ => "rerr"
      s!"{dumpO tab o};{outText};{t1};rt={if t1 == dumpO tab o then 1 else 0}"
    | _ => "perr"
end Patterns

/-- words → model tokens. -/
partial def group : List String → List Tok → Tab → Option (List Tok × Tab)
  | [], acc, tab => some (acc, tab)
  | w :: rest, acc, tab =>
    let push (t : Tok) (r : List String) (tb : Tab) := group r (acc ++ [t]) tb
    -- match-case patterns: anything the pattern model reads from here that is followed by `->`, when
    -- it starts with a tag, `_` or `{` (a `(` … `) ->` is taken for a lambda parameter list)
    let patOf : Option (String × String × SamVerif.Doc.Doc × List String) :=
      if isUpperId w || w == "_" || w == "{" then
        let all := w :: rest
        let (pts, ptab) := ptoks all
        match SamVerif.FmtPat.parsePattern pts with
        | some (o, remToks) =>
          match all.drop (all.length - remToks.length) with
          | "->" :: r =>
            some (" ".intercalate ((SamVerif.FmtPat.printO o).map (ptokText ptab)) ++ " ->", dumpO ptab o, docO ptab o, r)
          | _ => none
        | none => none
      else none
    match patOf with
    | some (text, dmp, pd, r) =>
      let (tb, i) := intern tab ⟨text, dmp, "", [pd]⟩
      push (.pat i) r tb
    | none =>
    if w == "let" then
      -- `let pattern [: type] =` is one unit; the pattern goes through `Model/FmtPat.lean`
      let before := rest.takeWhile (· != "=")
      let after := rest.dropWhile (· != "=")
      match after with
      | "=" :: r =>
        let patWords := before.takeWhile (· != ":")
        let tyWords := (before.dropWhile (· != ":")).drop 1
        let (pts, ptab) := ptoks patWords
        match SamVerif.FmtPat.parsePattern (pts ++ [.other 1000000]) with
        | some (o, [.other 1000000]) =>
          let ptext := " ".intercalate ((SamVerif.FmtPat.printO o).map (ptokText ptab))
          let tyOk := tyWords.isEmpty || (tyWords.length == 1 && tyWords.all isTypeWord)
          if !tyOk then none else
          let tyText := if tyWords.isEmpty then "" else " : " ++ tyWords.head!
          let tyDump := if tyWords.isEmpty then "" else
            " : " ++ (if isUpperId tyWords.head! then s!"(tid {tyWords.head!})" else tyWords.head!)
          let annotD : SamVerif.Doc.Doc := if tyWords.isEmpty then .nil else .concat (tdoc ": ") (tyDoc tyWords.head!)
          let (tb, i) := intern tab ⟨s!"let {ptext}{tyText} =", s!"(let {dumpO ptab o}{tyDump} ", ")", [docO ptab o, annotD]⟩
          push (.letK i) r tb
        | _ => none
      | _ => none
    else if w == ";" then push .semi rest tab
    else if w == "if" then push .kwIf rest tab
    else if w == "else" then push .kwElse rest tab
    else if w == "match" then push .kwMatch rest tab
    else if w == "{" then push .lb rest tab
    else if w == "}" then push .rb rest tab
    else if w == "," then push .comma rest tab
    else if w == "(" then
      match lambdaParams rest with
      | some (ps, "->" :: r) =>
        if !(ps.all fun (n, t) => isLowerId n && (t.map isTypeWord).getD true) then push .lp rest tab else
        let ptxt := fun (p : String × Option String) => match p.2 with | some t => s!"{p.1} : {t}" | none => p.1
        let pdmp := fun (p : String × Option String) => match p.2 with
          | some t => s!" ({p.1} : {if isUpperId t then s!"(tid {t})" else t})" | none => s!" ({p.1})"
        let (tb, i) := intern tab ⟨"( " ++ " , ".intercalate (ps.map ptxt) ++ (if ps.isEmpty then ") ->" else " ) ->"),
          "(lambda (params" ++ String.join (ps.map pdmp) ++ ") ", ")",
          [commaSepD (ps.map fun (p : String × Option String) => match p.2 with
            | some t => SamVerif.Doc.concatV [sdoc p.1, tdoc ": ", tyDoc t]
            | none => sdoc p.1)]⟩
        push (.lam i) r tb
      | _ => push .lp rest tab
    else if w == "." then
      match rest with
      | n :: "<" :: t :: ">" :: r =>
        if isWordAtom n && !isNum n && isTypeWord t then
          let td := if isUpperId t then s!"(tid {t})" else t
          let (tb, i) := intern tab ⟨s!". {n} < {t} >", "(. ", s!" {n} (targs {td}))",
            [sdoc n, SamVerif.Doc.bracketFlexible ['<'] .lineNil (tyDoc t) ['>']]⟩
          push (.post i false) r tb
        else none
      | n :: r =>
        if isWordAtom n && !isNum n then
          let (tb, i) := intern tab ⟨s!". {n}", "(. ", s!" {n})", [sdoc n, .nil]⟩
          push (.post i true) r tb
        else none
      | _ => none
    else if w == ")" then push .rp rest tab
    else if w == "!" then push .bang rest tab
    else match opOf w with
      | some o => push (.op o) rest tab
      | none =>
        if isWordAtom w then
          let (tb, i) := intern tab ⟨w, w, "", [if w == "true" || w == "false" then tdoc w else sdoc w]⟩
          push (.atom i) rest tb
        else none

def ent (tab : Tab) (i : Nat) : Entry := (tab[i]?).getD ⟨"?", "?", "?", []⟩

def tokText (tab : Tab) : Tok → String
  | .lp => "(" | .rp => ")" | .bang => "!" | .comma => "," | .lb => "{" | .rb => "}"
  | .kwIf => "if" | .kwElse => "else" | .kwMatch => "match" | .semi => ";"
  | .op o => opText o
  | .atom a | .post a _ | .pat a | .lam a | .letK a => (ent tab a).text

mutual
partial def dump (tab : Tab) : Expr → String
  | .atom a => (ent tab a).pre
  | .tuple e es => "(tuple " ++ dump tab e ++ dumpArgs tab es ++ ")"
  | .block b => dumpBlk tab b
  | .post e p _ => (ent tab p).pre ++ dump tab e ++ (ent tab p).suf
  | .call0 f => "(call " ++ dump tab f ++ ")"
  | .call f args => "(call " ++ dump tab f ++ dumpArgs tab args ++ ")"
  | .unary .not e => "(! " ++ dump tab e ++ ")"
  | .unary .neg e => "(neg " ++ dump tab e ++ ")"
  | .binary o l r => "(" ++ opText o ++ " " ++ dump tab l ++ " " ++ dump tab r ++ ")"
  | .ifElse c t e => "(if " ++ dump tab c ++ " " ++ dumpBlk tab t ++ " " ++ dumpBlk tab e ++ ")"
  | .matchE m cs => "(match " ++ dump tab m ++ dumpCases tab cs ++ ")"
  | .lambda k b => (ent tab k).pre ++ dump tab b ++ (ent tab k).suf
partial def dumpArgs (tab : Tab) : Args → String
  | .one e => " " ++ dump tab e
  | .cons e rest => " " ++ dump tab e ++ dumpArgs tab rest
partial def dumpBlk (tab : Tab) : Blk → String
  | .fin ss e => "(block" ++ dumpStmts tab ss ++ " (final " ++ dump tab e ++ "))"
  | .noFin ss => "(block" ++ dumpStmts tab ss ++ ")"
partial def dumpStmts (tab : Tab) : Stmts → String
  | .nil => ""
  | .letS k e rest => " " ++ (ent tab k).pre ++ dump tab e ++ (ent tab k).suf ++ dumpStmts tab rest
  | .exprS e rest => " (stmt " ++ dump tab e ++ ")" ++ dumpStmts tab rest
partial def dumpCases (tab : Tab) : Cases → String
  | .one k b => " (case " ++ (ent tab k).pre ++ " " ++ dump tab b ++ ")"
  | .cons k b rest => " (case " ++ (ent tab k).pre ++ " " ++ dump tab b ++ ")" ++ dumpCases tab rest
end

def textOfHex (h : String) : String := (String.fromUTF8? (ByteArray.mk (bytesOfHex h).toArray)).getD ""

def lexAll (text : String) : Option (List Tok × Tab) :=
  (lexWords text.toList []).bind fun ws => group (mergeWords ws) [] []

def stepE (text : String) : String :=
  match lexAll text with
  | none => "perr"
  | some (ts, tab) =>
    match parseExpr ts with
    | none => "perr"
    | some e =>
      let out := printE e
      let outText := " ".intercalate (out.map (tokText tab))
      -- re-lex the rendered text (so that `- 2147483648` is merged again) and re-parse
      let t1 := match lexAll outText with
        | none => "rerr"
        | some (ts2, tab2) =>
          match parseExpr ts2 with
          | none => "rerr"
          | some e2 => dump tab2 e2
      -- the proved prediction of the re-parsed tree (`roundtrip_expr_total`)
      let predicted := dump tab (regroup e)
      let main3 := s!"{dump tab e};{outText.replace ";" "SEMI"};{t1}"
      let rt := regroup e == e
      -- the round-2 model (`Model/Fmt.lean`, kept for C09b / C13b) on the same text, where its lexer applies
      let legacy := Driver.C08Legacy.stepE text
      let v2 := if legacy == "perr" then "skip"
        else if legacy == main3 ++ (if rt then ";rt=1" else ";rt=0") then "ok" else legacy
      s!"{main3};rt={if rt then 1 else 0};rg={if predicted == t1 then "ok" else predicted};v2={v2}"

def hexOfString (s : String) : String := hexOfBytes s.toUTF8.toList

/-! ### `X` lines: the document of the expression (`Model/FmtDoc.lean`) -/
section DocStep
open SamVerif.Doc SamVerif.FmtDoc

def leavesOf (tab : Tab) : Leaves :=
  let get (i j : Nat) : Doc := ((ent tab i).leaf)[j]?.getD .nil
  ⟨fun a => get a 0, fun p => get p 0, fun p => get p 1, fun k => get k 0, fun k => get k 0,
   fun k => get k 1, fun k => get k 0⟩

def hexStr (s : List Char) : String := if s.isEmpty then "-" else hexOfString (String.ofList s)

/-- the prefix notation of `samlang_printer::verif_hooks` (`dump_into`). -/
partial def dumpDoc : Doc → Array String → Array String
  | .nil, out => out.push "N"
  | .concat a b, out => dumpDoc b (dumpDoc a (out.push "C"))
  | .nest n d, out => dumpDoc d ((out.push "I").push (toString n))
  | .text s, out => (out.push "T").push (hexStr s)
  | .nstext s, out => (out.push "S").push (hexStr s)
  | .line, out => out.push "L"
  | .lineNil, out => out.push "LN"
  | .lineHard, out => out.push "LH"
  | .union a b, out => dumpDoc b (dumpDoc a (out.push "U"))

def stepX (width : Nat) (text : String) : String :=
  match lexAll text with
  | none => "perr"
  | some (ts, tab) =>
    match parseExpr ts with
    | none => "perr"
    | some e =>
      let L := leavesOf tab
      let d := docOf L e
      let lv := tab.all fun en => en.leaf.all (agreeB textKey)
      let cs := chars L (printE e)
      s!"{dump tab e};{" ".intercalate (dumpDoc d #[]).toList};lv={if lv then "ok" else "bad"};{hexStr cs};{hexStr (prettyPrint width d)}"
end DocStep

def stepS (text : String) : String :=
  let cs := text.trimAscii.toString.toList
  match lexStr cs with
  | some (content, []) =>
    if !validEscape (('"' :: content) ++ ['"']) then "perr" else
    let lit := unescapeQuotes content
    let printed := printStr lit
    let t1 := match lexStr printed with
      | some (c2, []) =>
        if validEscape (('"' :: c2) ++ ['"']) then s!"(s {hexOfString (String.ofList (unescapeQuotes c2))})" else "rerr"
      | _ => "rerr"
    s!"(s {hexOfString (String.ofList lit)});{String.ofList printed};{t1};rt=1"
  | _ => "perr"


def step (_ : Unit) (line : String) : Unit × String :=
  match words line with
  | ["E", _, h] => ((), stepE (textOfHex h))
  | ["S", _, h] => ((), stepS (textOfHex h))
  | ["X", w, h] => ((), stepX w.toNat! (textOfHex h))
  | ["P", _, h] => ((), stepP (textOfHex h))
  | ["T", kind] =>
    -- `trail` stream: the model's two tables for one list kind
    match SamVerif.FmtLists.allKinds.find? (fun k => k.name == kind) with
    | some k => ((), s!"accepts={if SamVerif.FmtLists.parserAcceptsTrailing k then 1 else 0} emits={if SamVerif.FmtLists.printerEmitsTrailing k then 1 else 0}")
    | none => ((), "unknown-kind")
  | _ => ((), "bad-op")

def run : IO Unit := runLoop () step

end Driver.C08

def main (_args : List String) : IO UInt32 := do
  Driver.C08.run
  return 0
