import SamVerif.Model.Scope
import SamVerif.Model.ScopeSig
import SamVerif.Model.C13Hint
import Driver.ScopeIO
import Driver.Util
/-! Line-protocol driver for property C13 (model side).
  `ssa <module dump>` -> canonical analysis result of `SamVerif.Scope.analyze`
  `sig <toplevel dump>` -> canonical result of `SamVerif.Sig.buildModule` -/
namespace Driver.C13
open SamVerif.Scope SamVerif Driver Driver.ScopeIO

abbrev SigTop := Sig.Top String (Nat × Nat)

/-- reader for the `sig` dump (flat token stream, see harness/src/bin/c13.rs) -/
partial def parseTops (toks : List String) (acc : List SigTop) : List SigTop :=
  match toks with
  | "top" :: name :: _loc :: cls :: priv :: ntp :: nsup :: rest =>
    let rec go (t : SigTop) : List String → SigTop × List String
      | "m" :: n :: l :: meth :: nargs :: r =>
        go { t with members := t.members ++ [{ name := n, isMethod := meth == "1", sig := (l.toNat!, nargs.toNat!) }] } r
      | "tdnone" :: r => go t r
      | "tdstruct" :: l :: nf :: r => go { t with tyDef := .struct [] (l.toNat!, nf.toNat!) } r
      | "f" :: n :: r =>
        go { t with tyDef := match t.tyDef with | .struct fs c => .struct (fs ++ [n]) c | o => o } r
      | "tdenum" :: l :: r => go { t with tyDef := .enum [] (l.toNat!) } r
      | "v" :: n :: k :: r =>
        go { t with tyDef := match t.tyDef with | .enum vs l => .enum (vs ++ [(n, k.toNat!)]) l | o => o } r
      | "end" :: r => (t, r)
      | r => (t, r)
    let (t, r) := go { name := name, isClass := cls == "1", priv := priv == "1", ntparams := ntp.toNat!,
                       nsupers := nsup.toNat!, members := [], tyDef := .none } rest
    parseTops r (acc ++ [t])
  | _ => acc

def showMembers (m : List (String × (Nat × Nat))) : String :=
  "+".intercalate (sortS (m.map fun e => s!"{e.1}@{e.2.1}/{e.2.2}"))

def showIface (e : String × Sig.Iface String (Nat × Nat)) : String :=
  let i := e.2
  let td := match i.tyDef with
    | .none => "none"
    | .struct fs => "struct:" ++ "+".intercalate fs
    | .enum vs => "enum:" ++ "+".intercalate (vs.map fun (v : String × Nat) => s!"{v.1}/{v.2}")
  s!"{e.1}\{p{if i.priv then 1 else 0} t{i.ntparams} s{i.nsupers} {td} F[{showMembers i.functions}] M[{showMembers i.methods}]}"

/-- reader for the `cls` shape dump: `s`, `c`, `( if OPT ARG )`, `( m ARG* )`, `( l BITS ARG )`,
`( b OPT )` with OPT = `-` | ARG -/
partial def parseArg : List String → Option (Hint.Arg × List String)
  | "s" :: r => some (.simple, r)
  | "c" :: r => some (.call, r)
  | "(" :: "if" :: r =>
    match parseOpt r with
    | some (t, r1) =>
      match parseArg r1 with
      | some (e, ")" :: r2) => some (.ifElse t e, r2)
      | _ => none
    | none => none
  | "(" :: "b" :: r =>
    match parseOpt r with
    | some (f, ")" :: r1) => some (.block f, r1)
    | _ => none
  | "(" :: "l" :: bits :: r =>
    match parseArg r with
    | some (b, ")" :: r1) =>
      some (.lambda (if bits == "-" then [] else bits.toList.map (· == '1')) b, r1)
    | _ => none
  | "(" :: "m" :: r =>
    let rec cases (acc : List Hint.Arg) : List String → Option (List Hint.Arg × List String)
      | ")" :: r => some (acc.reverse, r)
      | toks => match parseArg toks with
        | some (a, r) => cases (a :: acc) r
        | none => none
    match cases [] r with
    | some (cs, r1) => some (.matchE cs, r1)
    | none => none
  | _ => none
where
  parseOpt : List String → Option (Option Hint.Arg × List String)
    | "-" :: r => some (none, r)
    | toks => match parseArg toks with
      | some (a, r) => some (some a, r)
      | none => none

def step (_ : Unit) (line : String) : Unit × String :=
  match words line with
  | "ssa" :: toks =>
    match parseModule toks with
    | some m => ((), render (analyze "this" m))
    | none => ((), "bad-dump")
  | "sig" :: toks =>
    let tops := parseTops toks []
    let res := Sig.buildModule "init" (fun l k => (l, k)) tops
    ((), " ".intercalate (sortS (res.map showIface)))
  | "cls" :: toks =>
    match parseArg toks with
    | some (a, _) => ((), if Hint.withoutHint a then "1" else "0")
    | none => ((), "bad-dump")
  | _ => ((), "bad-op")

end Driver.C13

def main (_args : List String) : IO UInt32 := do
  Driver.runLoop () Driver.C13.step
  return 0
