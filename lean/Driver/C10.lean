import SamVerif.Model.Incremental
import Driver.Util
/-! Protocol `lsphist` (C10), model side: replays update / rename / remove histories through
`SamVerif.Incremental` with `Mod = String`, `Content = Nat` (content id), `Sig = String`
(`"<m>~<cid>"` = `build_module_signature(m, parse(cid as m))`, `"!"` = builtin signature) and
`Err = String` (tokens).

The checker parameter is a **table**: `tab <callkey> <k:tok,...>` lines give the real checker's
answer for a call `(m, cid, global_cx)`; a call that is not in the table answers with the single
token `CALL:<callkey>` located in `m`, which tells the orchestration which real calls to evaluate
(`harness c10: chk`).  Parse errors of content `cid` are the tokens `P.<cid>.<i>`.

Lines: `def <cid> <nperr> <imports,|->`, `tab <key> <val>`, `univ <names…>`, `new m=cid …`,
`upd m=cid …`, `ren a:b …`, `rem m …`, `graph m=imps … // dirty …`, `ev chg|cre|ren|del …`.  Answer of a state-changing line:
`<name>=<+|-><tok,…|->` for every universe name (`+` iff the module is a source). -/
namespace Driver.C10
open SamVerif.Incremental Driver

abbrev St := State String Nat String String

structure D where
  defs : List (Nat × (Nat × List String)) := []
  tab : List (String × List (String × String)) := []
  univ : List String := []
  st : Option St := none

def lookupS {α} (l : List (String × α)) (k : String) : Option α := (l.find? (·.1 == k)).map (·.2)
def lookupN {α} (l : List (Nat × α)) (k : Nat) : Option α := (l.find? (·.1 == k)).map (·.2)

def callKey (univ : List String) (m : String) (c : Nat) (G : String → Option String) : String :=
  let parts := univ.filterMap (fun k => (G k).map (fun sg => k ++ ">" ++ sg))
  m ++ "/" ++ toString c ++ "/" ++ ";".intercalate parts

def mkChecker (d : D) : Checker String Nat String String where
  root := "@"
  builtin := "!"
  imports := fun c => match lookupN d.defs c with | some (_, is) => is | none => []
  sig := fun m c => m ++ "~" ++ toString c
  parseErrs := fun c => match lookupN d.defs c with
    | some (n, _) => (List.range n).map (fun i => "P." ++ toString c ++ "." ++ toString i)
    | none => []
  isSyntax := fun e => e.startsWith "P."
  check := fun m c G =>
    let key := callKey d.univ m c G
    match lookupS d.tab key with
    | some r => r
    | none => [(m, "CALL:" ++ key)]

def parsePairs (sep : String) (ws : List String) : List (String × String) :=
  ws.filterMap (fun w => match w.splitOn sep with
    | [a, b] => some (a, b)
    | _ => none)

def dedup (l : List String) : List String := l.foldl (fun acc x => if acc.contains x then acc else acc ++ [x]) []

/-- The stored dependency graph of the model (`s.graph`), forward edges. -/
def graphDump (ck : Checker String Nat String String) (s : St) : String :=
  let ks := dedup (keys s.graph)
  if ks.isEmpty then "#graph=-" else
  "#graph=" ++ ";".intercalate (ks.map (fun k =>
    let es := dedup (fwdEdges ck s.graph k)
    k ++ ">" ++ (if es.isEmpty then "-" else ",".intercalate es)))

def observe (d : D) (s : St) : String :=
  (fun o => o ++ " " ++ graphDump (mkChecker d) s) <| " ".intercalate (d.univ.map (fun k =>
    let es := dedup (getErrors s k)
    k ++ "=" ++ toString ((if (lookup s.sources k).isSome then 3 else 0) +
        (if s.checked.contains k then 4 else 0)) ++
      (if es.isEmpty then "-" else ",".intercalate es)))

/-- Checker for plain graphs: a content is its import list. -/
def graphChecker : Checker String (List String) Unit Unit where
  root := "@"
  builtin := ()
  imports := fun c => c
  sig := fun _ _ => ()
  parseErrs := fun _ => []
  isSyntax := fun _ => false
  check := fun _ _ _ => []

/-- `!` = a URI outside of the source directory. -/
def inside (m : String) : Option String := if m == "!" then none else some m

def showOp : Op String Nat → String
  | .update ups => " ".intercalate ("upd" :: ups.map (fun p => p.1 ++ "=" ++ toString p.2))
  | .rename rens => " ".intercalate ("ren" :: rens.map (fun p => p.1 ++ ":" ++ p.2))
  | .remove ms => " ".intercalate ("rem" :: ms)

def stepLine (d : D) (line : String) : D × String :=
  let ck := mkChecker d
  match words line with
  | ["def", cid, n, imps] =>
    let is := if imps == "-" then [] else imps.splitOn ","
    ({ d with defs := (cid.toNat!, (n.toNat!, is)) :: d.defs }, "ok")
  | ["tab", key, val] =>
    let r := if val == "-" then [] else parsePairs ":" (val.splitOn ",")
    ({ d with tab := (key, r) :: d.tab }, "ok")
  | "univ" :: ns => ({ d with univ := ns }, "ok")
  | "new" :: kvs =>
    let S : Sources String Nat := (parsePairs "=" kvs).map (fun p => (p.1, p.2.toNat!))
    let s := fresh ck S
    ({ d with st := some s }, observe d s)
  | "upd" :: kvs =>
    match d.st with
    | none => (d, "no-state")
    | some s =>
      let s' := update ck s ((parsePairs "=" kvs).map (fun p => (p.1, p.2.toNat!)))
      ({ d with st := some s' }, observe d s')
  | "ren" :: kvs =>
    match d.st with
    | none => (d, "no-state")
    | some s =>
      let s' := rename ck s (parsePairs ":" kvs)
      ({ d with st := some s' }, observe d s')
  | "rem" :: ms =>
    match d.st with
    | none => (d, "no-state")
    | some s =>
      let s' := remove ck s ms
      ({ d with st := some s' }, observe d s')
  | "graph" :: rest =>
    -- `graph m=imp,imp ... // dirty ...`: the model's affected_set on a plain graph
    let edges := rest.takeWhile (· != "//")
    let dirty := (rest.dropWhile (· != "//")).drop 1
    let S : Sources String (List String) := (parsePairs "=" edges).map (fun p =>
      (p.1, if p.2 == "-" then [] else p.2.splitOn ","))
    let r := dedup (affectedSet graphChecker S dirty)
    (d, if r.isEmpty then "-" else ",".intercalate r)
  | "ev" :: kind :: args =>
    -- LSP notification -> the `ServerState` call of the handler (model `glue`), printed as an op line
    let ev : Option (Event String Nat) := match kind with
      | "chg" => match parsePairs "=" args with
        | [(m, c)] => some (.didChange (inside m) c.toNat!)
        | _ => none
      | "cre" => some (.didCreate ((parsePairs "=" args).map (fun p =>
          (inside p.1, if p.2 == "?" then none else some p.2.toNat!))))
      | "ren" => some (.didRename ((parsePairs ":" args).map (fun p => (inside p.1, inside p.2))))
      | "del" => some (.didDelete (args.map (fun a => if a == "?" || a == "!" then none else some a)))
      | _ => none
    match ev with
    | none => (d, "bad-event")
    | some ev => (d, showOp (glue "@" ev))
  | _ => (d, "bad-op")

def run : IO Unit := runLoop ({} : D) stepLine

end Driver.C10

def main (_args : List String) : IO UInt32 := do
  Driver.C10.run
  return 0
