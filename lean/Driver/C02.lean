import SamVerif.Model.OptKernel
import Driver.Util
/-! Line-protocol driver for property C02 (model side): `fold`, `tgt`, `merge`, `trip`, `flex`,
`unwrap`, `ccp`, `ivloop`, `ivorig`. One answer line per input line. -/
namespace Driver.C02
open SamVerif.Opt Driver

def opOf : String → Option Op
  | "mul" => some .mul | "div" => some .div | "mod" => some .mod | "add" => some .add
  | "sub" => some .sub | "and" => some .land | "or" => some .lor | "shl" => some .shl
  | "shr" => some .shr | "xor" => some .xor | "lt" => some .lt | "le" => some .le
  | "gt" => some .gt | "ge" => some .ge | "eq" => some .eq | "ne" => some .ne
  | _ => none

def opName : Op → String
  | .mul => "mul" | .div => "div" | .mod => "mod" | .add => "add" | .sub => "sub"
  | .land => "and" | .lor => "or" | .shl => "shl" | .shr => "shr" | .xor => "xor"
  | .lt => "lt" | .le => "le" | .gt => "gt" | .ge => "ge" | .eq => "eq" | .ne => "ne"

def guardOf : String → Option Guard
  | "lt" => some .lt | "le" => some .le | "gt" => some .gt | "ge" => some .ge | _ => none

/-- `i<n>` 32-bit literal, `j<n>` 31-bit literal, `s<k>` string name, `v<k>` variable. -/
def exprOf (s : String) : Option Expr :=
  let rest := (s.drop 1).toString
  match s.front with
  | 'i' => rest.toInt?.map .i32
  | 'j' => rest.toInt?.map .i31
  | 's' => rest.toNat?.map .str
  | 'v' => rest.toNat?.map .var
  | _ => none

def pad2 (n : Nat) : String := if n < 10 then "0" ++ toString n else toString n

def showExpr : Expr → String
  | .i32 n => "i" ++ toString n
  | .i31 n => "j" ++ toString n
  | .str k => "s" ++ pad2 k
  | .var k => "v" ++ pad2 k

def operandOf (s : String) : Option Operand :=
  match exprOf s with
  | some (.i32 n) => some (.lit n)
  | some (.var k) => some (.var k)
  | _ => none

def opdToExpr : Operand → Expr
  | .lit n => .i32 n
  | .var k => .var k

def showTriple (t : Op × Expr × Expr) : String :=
  opName t.1 ++ " " ++ showExpr t.2.1 ++ " " ++ showExpr t.2.2

def showLoopRes : LoopRes → String
  | .out p r => "out " ++ (if p.isEmpty then "-" else ",".intercalate (p.map toString)) ++ " ret " ++ toString r
  | .fuel => "fuel"
  | .panic => "panic"

def ints (ws : List String) : Option (List Int) := ws.mapM String.toInt?

/-- `srloop|srorig G BOUND GI K (i0 st)*K ND (base m c)*ND FUEL` -/
def srAnswer (opt : Bool) (ws : List String) : String :=
  match ws with
  | g :: b :: gi :: k :: rest =>
    match guardOf g, b.toInt?, gi.toNat?, k.toNat?, ints rest with
    | some g, some b, some gi, some k, some xs =>
      let ivs := (List.range k).map fun t => (xs.getD (2 * t) 0, xs.getD (2 * t + 1) 0)
      let r := xs.drop (2 * k)
      let nd := (r.getD 0 0).toNat
      let ds := (List.range nd).map fun t =>
        ({ base := (r.getD (1 + 3 * t) 0).toNat, m := r.getD (2 + 3 * t) 0, c := r.getD (3 + 3 * t) 0 } : Derived)
      let fuel := (r.getD (1 + 3 * nd) 0).toNat
      let L : MultiLoop := { ivs := ivs, gi := gi, g := g, bound := b, ds := ds }
      match (if opt then runMultiOpt L fuel else runMultiOrig L fuel) with
      | some p => "out " ++ (if p.isEmpty then "-" else ",".intercalate (p.map toString))
      | none => "fuel"
    | _, _, _, _, _ => "bad-line"
  | _ => "bad-line"

/-- `dce RET (b X OP A B | p A)*` with operands `v<k>` / `i<n>` -/
partial def parseS : List String → Option (List SStmt)
  | [] => some []
  | "b" :: x :: o :: a :: b :: rest =>
    match exprOf x, opOf o, operandOf a, operandOf b, parseS rest with
    | some (.var x), some o, some a, some b, some r => some (.bin x o a b :: r)
    | _, _, _, _, _ => none
  | "p" :: a :: rest =>
    match operandOf a, parseS rest with
    | some a, some r => some (.print a :: r)
    | _, _ => none
  | _ => none

def dceAnswer (ws : List String) : String :=
  match ws with
  | ret :: rest =>
    match operandOf ret, parseS rest with
    | some r, some p =>
      let kept := (dce p r.vars).1.filterMap fun s => match s with
        | .bin x _ _ _ => some ("v" ++ pad2 x)
        | .print _ => none
      "kept " ++ (if kept.isEmpty then "-" else ",".intercalate kept)
    | _, _ => "bad-line"
  | _ => "bad-line"

/-- `lvn` protocol: `b X OP A B | p A | k A | [ C INV … ]` -/
partial def parseSimples : List String → Option (List Simple × List String)
  | "b" :: x :: o :: a :: b :: rest =>
    match exprOf x, opOf o, operandOf a, operandOf b, parseSimples rest with
    | some (.var x), some o, some a, some b, some (r, tl) => some (.bin x o a b :: r, tl)
    | _, _, _, _, _ => none
  | "p" :: a :: rest =>
    match operandOf a, parseSimples rest with
    | some a, some (r, tl) => some (.print a :: r, tl)
    | _, _ => none
  | "k" :: a :: rest =>
    match operandOf a, parseSimples rest with
    | some a, some (r, tl) => some (.brk a :: r, tl)
    | _, _ => none
  | rest => some ([], rest)

partial def parseL : List String → Option (List LStmt)
  | [] => some []
  | "[" :: c :: inv :: rest =>
    match operandOf c, parseSimples rest with
    | some c, some (body, "]" :: tl) => (parseL tl).map fun r => .sif c (inv == "1") body :: r
    | _, _ => none
  | "{" :: c :: rest =>
    match operandOf c, parseSimples rest with
    | some c, some (s1, "|" :: tl1) =>
      match parseSimples tl1 with
      | some (s2, ";" :: n :: tl2) =>
        match n.toNat? with
        | some n =>
          let ts := tl2.take (3 * n)
          let fas := (List.range n).filterMap fun i =>
            match exprOf (ts.getD (3 * i) ""), operandOf (ts.getD (3 * i + 1) ""), operandOf (ts.getD (3 * i + 2) "") with
            | some (.var x), some a, some b => some (x, a, b)
            | _, _, _ => none
          match tl2.drop (3 * n) with
          | "}" :: tl3 => if fas.length = n then (parseL tl3).map fun r => .ife c s1 s2 fas :: r else none
          | _ => none
        | none => none
      | _ => none
    | _, _ => none
  | ws =>
    match parseSimples ws with
    | some (st :: sts, tl) => (parseL tl).map fun r => (st :: sts).map LStmt.s ++ r
    | _ => none

def showOpd (o : Operand) : String := showExpr (opdToExpr o)

def showSimple : Simple → String
  | .bin x o a b => s!"b v{pad2 x} {opName o} {showOpd a} {showOpd b}"
  | .print a => s!"p {showOpd a}"
  | .brk a => s!"k {showOpd a}"

def showL : LStmt → String
  | .s st => showSimple st
  | .sif c inv body => s!"[ {showOpd c} {if inv then 1 else 0} " ++ " ".intercalate (body.map showSimple) ++ (if body.isEmpty then "]" else " ]")
  | .ife c s1 s2 fas =>
    let b1 := " ".intercalate (s1.map showSimple)
    let b2 := " ".intercalate (s2.map showSimple)
    let f := " ".intercalate (fas.map fun fa => s!"v{pad2 fa.1} {showOpd fa.2.1} {showOpd fa.2.2}")
    "{ " ++ showOpd c ++ " " ++ (if b1.isEmpty then "" else b1 ++ " ") ++ "| " ++ (if b2.isEmpty then "" else b2 ++ " ")
      ++ "; " ++ toString fas.length ++ " " ++ (if f.isEmpty then "" else f ++ " ") ++ "}"

def lvnAnswer (ws : List String) : String :=
  match parseL ws with
  | some p =>
    let r := lvnL p { ren := [], avail := [] }
    if r.isEmpty then "-" else " ".intercalate (r.map showL)
  | none => "bad-line"

/-- `cse <block1> / <block2>`: sorted list of the values hoisted in front of `if v0 {block1} {block2}` -/
def cseAnswer (ws : List String) : String :=
  let i := ws.idxOf "/"
  match parseSimples (ws.take i), parseSimples (ws.drop (i + 1)) with
  | some (s1, []), some (s2, []) =>
    let ks := (cseCommon s1 s2).map fun k => s!"{opName k.1}:{showOpd k.2.1}:{showOpd k.2.2}"
    let ks := (ks.eraseDups.toArray.qsort (· < ·)).toList
    "hoisted " ++ (if ks.isEmpty then "-" else ",".intercalate ks) ++ " branches=same"
  | _, _ => "bad-line"

/-- `inl NP arg*NP RET <callee body>`: what replaces `v90 = f1(args)`; mangled names print as `m:v<k>` -/
def showOpdM (o : Operand) : String :=
  match o with
  | .var k => if k ≥ 1000 then "m:v" ++ pad2 (k - 1000) else "v" ++ pad2 k
  | .lit n => "i" ++ toString n

def showSimpleM : Simple → String
  | .bin x o a b => s!"b {showOpdM (.var x)} {opName o} {showOpdM a} {showOpdM b}"
  | .print a => s!"p {showOpdM a}"
  | .brk a => s!"k {showOpdM a}"

def inlAnswer (ws : List String) : String :=
  match ws with
  | np :: rest =>
    match np.toNat? with
    | some np =>
      match (rest.take np).mapM operandOf, operandOf (rest.getD np ""), parseSimples (rest.drop (np + 1)) with
      | some args, some ret, some (body, []) =>
        let f : Callee := { ps := List.range np, body := body, ret := ret }
        " ".intercalate ((inlineCall (· + 1000) f args 90).map showSimpleM)
      | _, _, _ => "bad-line"
    | none => "bad-line"
  | _ => "bad-line"

/-- `lvnw <prefix statements> ~ N (name init loopvalue)*N | <body>`: LVN of a block followed by a `While` -/
def lvnwAnswer (ws : List String) : String :=
  let i := ws.idxOf "~"
  let j := ws.idxOf "|"
  match parseSimples (ws.take i), ((ws.drop (i + 1)).headD "").toNat?, parseL (ws.drop (j + 1)) with
  | some (pre, []), some n, some body =>
    let ts := (ws.drop (i + 2)).take (3 * n)
    let lvs := (List.range n).filterMap fun k =>
      match exprOf (ts.getD (3 * k) ""), operandOf (ts.getD (3 * k + 1) ""), operandOf (ts.getD (3 * k + 2) "") with
      | some (.var x), some a, some b => some (x, a, b)
      | _, _, _ => none
    if lvs.length ≠ n || j ≠ i + 2 + 3 * n then "bad-line" else
    let r := lvnSimple pre { ren := [], avail := [] }
    let W := lvnLoop { lvs := lvs, body := body } r.2
    let showPre := " ".intercalate (r.1.map showSimple)
    let showLv := " ".intercalate (W.lvs.map fun lv => s!"v{pad2 lv.1} {showOpd lv.2.1} {showOpd lv.2.2}")
    let showB := " ".intercalate (W.body.map showL)
    (if showPre.isEmpty then "" else showPre ++ " ") ++ "~ " ++ toString n ++ " " ++ (if showLv.isEmpty then "" else showLv ++ " ")
      ++ "|" ++ (if showB.isEmpty then "" else " " ++ showB)
  | _, _, _ => "bad-line"

/-- `ivuse POS B`: the nested loop `while (k = .., s = 0 [, w = 0]) { c = k >= ..; if c break s; ns = s + ..; nk = k + 1 }`
inside the IV-elimination candidate; POS says where the outer counter `v0` is mentioned. The counter is
eliminated iff the use analysis finds no use. -/
def ivuseAnswer (ws : List String) : String :=
  match ws with
  | [pos, b] =>
    match b.toInt? with
    | some b =>
      let i : Operand := .var 0
      let kinit : Operand := if pos == "init" then i else .lit 0
      let ibound : Operand := if pos == "guard" then i else .lit b
      let addend : Operand := if pos == "body" then i else .var 10
      let lvs := [(10, kinit, Operand.var 13), (11, Operand.lit 0, Operand.var 12)] ++
        (if pos == "loopvalue" then [(14, Operand.lit 0, i)] else [])
      let W : Loop := { lvs := lvs, body := [.s (.bin 15 .ge (.var 10) ibound), .sif (.var 15) false [.brk (.var (if pos == "loopvalue" then 14 else 11))],
                                             .s (.bin 12 .add (.var 11) addend), .s (.bin 13 .add (.var 10) (.lit 1))] }
      -- IsPointer / Not / IndexedAccess / Cast / LateInitAssignment / StructInit / ClosureInit all read their operand
      let extra := if ["print", "ip", "nt", "ix", "cs", "la", "st", "cl"].contains pos then usesL 0 (.s (.print i)) else false
      if usesLoop 0 W || extra then "kept" else "elim"
    | none => "bad-line"
  | _ => "bad-line"

/-- `licmk`: loop body over every statement kind -> names of the hoisted statements -/
def opdVars (s : String) : List Nat :=
  match operandOf s with
  | some (.var k) => [k]
  | _ => []

def nameOf (s : String) : Nat :=
  match exprOf s with
  | some (.var k) => k
  | _ => 0

partial def parseLS : List String → Option (List LS)
  | [] => some []
  | "b" :: x :: o :: a :: b :: r =>
    (parseLS r).map fun t => LS.pure (nameOf x) (opdVars a ++ opdVars b) (o == "div" || o == "mod") :: t
  | "ip" :: x :: a :: r => (parseLS r).map fun t => LS.pure (nameOf x) (opdVars a) false :: t
  | "nt" :: x :: a :: r => (parseLS r).map fun t => LS.pure (nameOf x) (opdVars a) false :: t
  | "cs" :: x :: a :: r => (parseLS r).map fun t => LS.pure (nameOf x) (opdVars a) false :: t
  | "cl" :: x :: a :: r => (parseLS r).map fun t => LS.pure (nameOf x) (opdVars a) false :: t
  | "ix" :: x :: a :: _ :: r => (parseLS r).map fun t => LS.pure (nameOf x) (opdVars a) false :: t
  | "st" :: x :: n :: r =>
    let n := n.toNat!
    (parseLS (r.drop n)).map fun t => LS.pure (nameOf x) ((r.take n).flatMap opdVars) false :: t
  | "ld" :: x :: r => (parseLS r).map fun t => LS.stay [nameOf x] :: t
  | "la" :: x :: _ :: r => (parseLS r).map fun t => LS.stay [nameOf x] :: t
  | "cr" :: c :: n :: r =>
    let n := n.toNat!
    (parseLS (r.drop n)).map fun t => LS.stay (if c == "_" then [] else [nameOf c]) :: t
  | "p" :: _ :: r => (parseLS r).map fun t => LS.stay [] :: t
  | "k" :: _ :: r => (parseLS r).map fun t => LS.stay [] :: t
  | "wh" :: x :: r => (parseLS r).map fun t => LS.stay [nameOf x] :: t
  | "if" :: n :: r =>
    let n := n.toNat!
    (parseLS (r.drop n)).map fun t => LS.stay ((r.take n).map nameOf) :: t
  | "sf" :: r => (parseLS r).map fun t => LS.stay [] :: t
  | _ => none

def licmkAnswer (ws : List String) : String :=
  match parseLS ws with
  | some p =>
    let h := (licmF p [0]).1.filterMap fun s => match s with
      | .pure x _ _ => some ("v" ++ pad2 x)
      | .stay _ => none
    "hoisted " ++ (if h.isEmpty then "-" else ",".intercalate h)
  | none => "bad-line"

/-- `csek <block1> / <block2>` over Binary, IndexedAccess (`ix`), IsPointer (`ip`), Not (`nt`), effects (`p`) -/
partial def parseCS : List String → Option (List CS)
  | [] => some []
  | "b" :: _ :: o :: a :: b :: r =>
    match opOf o, operandOf a, operandOf b with
    | some o, some a, some b => (parseCS r).map (CS.bin o a b :: ·)
    | _, _, _ => none
  | "ix" :: _ :: a :: i :: r =>
    match operandOf a, i.toNat? with
    | some a, some i => (parseCS r).map (CS.un 0 a i :: ·)
    | _, _ => none
  | "ip" :: _ :: a :: r => (operandOf a).bind fun a => (parseCS r).map (CS.un 1 a 0 :: ·)
  | "nt" :: _ :: a :: r => (operandOf a).bind fun a => (parseCS r).map (CS.un 2 a 0 :: ·)
  | "p" :: _ :: r => (parseCS r).map (CS.eff :: ·)
  | _ => none

def showCKey : CKey → String
  | .b k => s!"{opName k.1}:{showOpd k.2.1}:{showOpd k.2.2}"
  | .u 0 a i => s!"ix:{showOpd a}:{i}"
  | .u 1 a _ => s!"ip:{showOpd a}"
  | .u _ a _ => s!"nt:{showOpd a}"

def csekAnswer (ws : List String) : String :=
  let i := ws.idxOf "/"
  match parseCS (ws.take i), parseCS (ws.drop (i + 1)) with
  | some s1, some s2 =>
    let ks := ((cseCommonC s1 s2).map showCKey).eraseDups
    let ks := (ks.toArray.qsort (· < ·)).toList
    "hoisted " ++ (if ks.isEmpty then "-" else ",".intercalate ks)
  | _, _ => "bad-line"

/-- `algopt G i0 step bound LIT NONIV DERIVED STMTS BRK`: does the closed-form elimination fire? -/
def algoptAnswer (ws : List String) : String :=
  match ws with
  | [g, i0, st, b, lit, nonIv, der, stm, brk] =>
    match guardOf g, ints [i0, st, b], [lit, nonIv, der, stm].mapM String.toNat? with
    | some g, some [i0, st, b], some [lit, nonIv, der, stm] =>
      let bv : Option BrkVal :=
        if brk == "counter" then some .counter else if brk == "lit" then some (.lit 7)
        else if brk == "giv" then some (.giv 0) else if brk == "outer" then some (.outer 0)
        else if brk == "none" then none else some .inner
      let A : AlgLoop := { g := g, i0 := i0, step := st, bound := b, literals := lit == 1, nonIv := nonIv, derived := der,
                           stmts := stm, givs := [(0, 5)], brk := bv }
      match algOpt A with
      | .declined => "kept"
      | _ => "fired"
    | _, _, _ => "bad-line"
  | _ => "bad-line"

/-- token language of `dceuse` / `dceloop` -> use-site statements -/
partial def parseUS : List String → Option (List US)
  | [] => some []
  | "b" :: x :: _ :: a :: b :: r =>
    match operandOf a, operandOf b with
    | some a, some b => (parseUS r).map (US.bin (nameOf x) a b :: ·)
    | _, _ => none
  | "ip" :: x :: a :: r => (operandOf a).bind fun a => (parseUS r).map (US.un (nameOf x) a :: ·)
  | "nt" :: x :: a :: r => (operandOf a).bind fun a => (parseUS r).map (US.un (nameOf x) a :: ·)
  | "cs" :: x :: a :: r => (operandOf a).bind fun a => (parseUS r).map (US.un (nameOf x) a :: ·)
  | "cl" :: x :: a :: r => (operandOf a).bind fun a => (parseUS r).map (US.clo (nameOf x) a :: ·)
  | "ix" :: x :: a :: _ :: r => (operandOf a).bind fun a => (parseUS r).map (US.idx (nameOf x) a :: ·)
  | "st" :: x :: n :: r =>
    let n := n.toNat!
    match (r.take n).mapM operandOf with
    | some fs => (parseUS (r.drop n)).map (US.strct (nameOf x) fs :: ·)
    | none => none
  | "cr" :: c :: n :: r =>
    let n := n.toNat!
    match (r.take n).mapM operandOf with
    | some args => (parseUS (r.drop n)).map (US.call none args (if c == "_" then none else some (nameOf c)) :: ·)
    | none => none
  | "ic" :: v :: c :: n :: r =>
    let n := n.toNat!
    match (r.take n).mapM operandOf with
    | some args => (parseUS (r.drop n)).map (US.call (some (nameOf v)) args (if c == "_" then none else some (nameOf c)) :: ·)
    | none => none
  | "p" :: a :: r => (operandOf a).bind fun a => (parseUS r).map (US.call none [a] none :: ·)
  | "k" :: a :: r => (operandOf a).bind fun a => (parseUS r).map (US.brk a :: ·)
  | _ => none

/-- `dceuse RET <block>`: names of the value-defining statements DCE keeps -/
def dceuseAnswer (ws : List String) : String :=
  match ws with
  | ret :: rest =>
    match operandOf ret, parseUS rest with
    | some r, some p =>
      let kept := (dceU true p r.vars).1.filterMap fun s => match s with
        | .call _ _ _ | .brk _ => none
        | s => s.defn.map fun x => "v" ++ pad2 x
      "kept " ++ (if kept.isEmpty then "-" else ",".intercalate kept)
    | _, _ => "bad-line"
  | _ => "bad-line"

/-- `dceloop <body>`: loop variables v00 (counter), v01 (the probed variable, next value v09); does v01 stay? -/
def dceloopAnswer (ws : List String) : String :=
  match parseUS ws with
  | some body =>
    let lvs : List (Nat × Operand × Operand) := [(0, .lit 0, .var 8), (1, .var 7, .var 9)]
    if (keptLoopVars true lvs body []).contains 1 then "kept" else "dropped"
  | none => "bad-line"

/-- `dcel RET <block>`: DCE of a block with SingleIf / IfElse (token language of `lvn`) -/
def dcelAnswer (ws : List String) : String :=
  match ws with
  | ret :: rest =>
    match operandOf ret, parseL rest with
    | some r, some p =>
      let q := (dceL p r.vars).1
      if q.isEmpty then "-" else " ".intercalate (q.map showL)
    | _, _ => "bad-line"
  | _ => "bad-line"

/-- `ccpif E1 E2 S1 S2 NFA`: does the IfElse disappear from CCP's output? (S = e empty / p print / d division) -/
def ccpifAnswer (ws : List String) : String :=
  match ws with
  | [e1, e2, s1, s2, nfa] =>
    match e1.toInt?, e2.toInt?, nfa.toNat? with
    | some e1, some e2, some nfa =>
      let fas : List (Operand × Operand) :=
        (if nfa ≥ 1 then [(Operand.lit e1, Operand.lit e2)] else []) ++ (if nfa ≥ 2 then [(Operand.var 0, Operand.var 1)] else [])
      if ccpIfGone (s1 == "e") (s2 == "e") fas then "gone" else "kept"
    | _, _, _ => "bad-line"
  | _ => "bad-line"

def licmAnswer (ws : List String) : String :=
  match parseS ws with
  | some p =>
    let h := (licm p [0]).1.filterMap fun s => match s with
      | .bin x _ _ _ => some ("v" ++ pad2 x)
      | .print _ => none
    "hoisted " ++ (if h.isEmpty then "-" else ",".intercalate h)
  | none => "bad-line"

def step (_ : Unit) (line : String) : Unit × String :=
  let ans : String :=
    match words line with
    | ["fold", o, a, b] =>
      match opOf o, a.toInt?, b.toInt? with
      | some op, some a, some b =>
        match evalImpl op a b with
        | .val v => "v " ++ toString v
        | .nofold => "nofold"
        | .panic => "panic"
      | _, _, _ => "bad-line"
    | ["tgt", o, a, b] =>
      match opOf o, a.toInt?, b.toInt? with
      | some op, some a, some b =>
        match evalTarget op a b with
        | some v => "v " ++ toString v
        | none => "trap"
      | _, _, _ => "bad-line"
    | ["merge", o, i, c1, c2] =>
      match opOf o, opOf i, c1.toInt?, c2.toInt? with
      | some o, some i, some c1, some c2 =>
        match mergeBinary o i c1 c2 with
        | .merged op c => "m " ++ opName op ++ " " ++ toString c
        | .none => "none"
        | .panic => "panic"
      | _, _, _, _ => "bad-line"
    | ["trip", g, i0, st, b] =>
      match guardOf g, i0.toInt?, st.toInt?, b.toInt? with
      | some g, some i0, some st, some b =>
        match tripCount g i0 st b with
        | .count n => "n " ++ toString n
        | .unknown => "none"
        | .panic => "panic"
      | _, _, _, _ => "bad-line"
    | ["flex", o, a, b] =>
      match opOf o, exprOf a, exprOf b with
      | some o, some a, some b => showTriple (flexUnwrapped o a b)
      | _, _, _ => "bad-line"
    | ["order", o, a, b] =>
      match opOf o, exprOf a, exprOf b with
      | some o, some a, some b => showTriple (flexibleOrder o a b)
      | _, _, _ => "bad-line"
    | ["unwrap", o, a, b] =>
      match opOf o, exprOf a, exprOf b with
      | some o, some a, some b => showTriple (binaryUnwrapped o a b)
      | _, _, _ => "bad-line"
    | ["ccp", o, a, b] =>
      match opOf o, operandOf a, operandOf b with
      | some o, some a, some b =>
        match ccpRule o a b with
        | .bind e => "bind " ++ showExpr (opdToExpr e)
        | .panic => "panic"
        | .keep => "stmt " ++ showTriple (flexUnwrapped o (opdToExpr a) (opdToExpr b))
      | _, _, _ => "bad-line"
    | "dce" :: rest => dceAnswer rest
    | "licm" :: rest => licmAnswer rest
    | "licmk" :: rest => licmkAnswer rest
    | "ivuse" :: rest => ivuseAnswer rest
    | "dceuse" :: rest => dceuseAnswer rest
    | "ccpif" :: rest => ccpifAnswer rest
    | "dcel" :: rest => dcelAnswer rest
    | "dceloop" :: rest => dceloopAnswer rest
    | "algopt" :: rest => algoptAnswer rest
    | "lvn" :: rest => lvnAnswer rest
    | "lvnw" :: rest => lvnwAnswer rest
    | "cse" :: rest => cseAnswer rest
    | "csek" :: rest => csekAnswer rest
    | "inl" :: rest => inlAnswer rest
    | "srloop" :: rest => srAnswer true rest
    | "srorig" :: rest => srAnswer false rest
    | [kind, g, i0, st, b, m, c, fuel] =>
      match guardOf g, ints [i0, st, b, m, c], fuel.toNat? with
      | some g, some [i0, st, b, m, c], some fuel =>
        let L : ObsLoop := { g := g, i0 := i0, step := st, bound := b, m := m, c := c }
        if kind == "ivloop" then showLoopRes (runOptimised L fuel)
        else if kind == "ivorig" then showLoopRes (runOriginal L fuel)
        else "bad-op"
      | _, _, _ => "bad-line"
    | _ => "bad-op"
  ((), ans)

def run : IO Unit := runLoop () step

end Driver.C02

def main (_args : List String) : IO UInt32 := do
  Driver.C02.run
  return 0
