import SamVerif.Model.StdMap
import SamVerif.Model.StdSet
import SamVerif.Model.StdList
import SamVerif.Model.StdAux
import Driver.Util
/-! Protocol `stdops` (C18): replays collection operations through the models of
`std/map.sam`, `std/set.sam`, `std/list.sam`.  One answer line per op line; the answers have the
same text the generated samlang driver program prints (see vlib/c18.py). Keys/elements are boxed
`Int`s compared by `this.value - other.value` in 32 bits. -/
namespace Driver.C18
open SamVerif Driver

abbrev M := StdMap.Tree Int Int
abbrev S := StdSet.STree Int
abbrev L := StdList.SList Int

def cmp : Int → Int → Int := StdMap.boxedCompare

structure St where
  maps : List M := [.empty, .empty, .empty, .empty]
  sets : List S := [.empty, .empty, .empty, .empty]
  lists : List L := [.nil, .nil, .nil, .nil]
  dead : Bool := false

def showI (i : Int) : String := toString i

partial def dumpM : M → String
  | .empty => "E"
  | .leaf k v => s!"(L {k} {v})"
  | .node h k v l r => s!"(N {h} {k} {v} {dumpM l} {dumpM r})"

partial def dumpS : S → String
  | .empty => "E"
  | .leaf v => s!"(L {v})"
  | .node h v l r => s!"(N {h} {v} {dumpS l} {dumpS r})"

def dumpL (l : L) : String := "[" ++ ",".intercalate ((StdList.toList l).map showI) ++ "]"

def reg (s : String) : Nat := (s.drop 1).toString.toNat!

def getM (st : St) (r : String) : M := st.maps.getD (reg r) .empty
def getS (st : St) (r : String) : S := st.sets.getD (reg r) .empty
def getL (st : St) (r : String) : L := st.lists.getD (reg r) .nil
def setM (st : St) (r : String) (m : M) : St := { st with maps := st.maps.set (reg r) m }
def setS (st : St) (r : String) (m : S) : St := { st with sets := st.sets.set (reg r) m }
def setL (st : St) (r : String) (m : L) : St := { st with lists := st.lists.set (reg r) m }

def int (s : String) : Int := s.toInt!

/-- element predicate codes -/
def pred (p : String) (c : Int) (x : Int) : Bool :=
  match p with
  | "lt" => x < c
  | "ge" => x ≥ c
  | "odd" => Int.tmod x 2 != 0
  | "all" => true
  | _ => false

/-- binding predicate codes -/
def predKV (p : String) (c : Int) (k v : Int) : Bool :=
  match p with
  | "klt" => k < c
  | "kge" => k ≥ c
  | "kodd" => Int.tmod k 2 != 0
  | "vlt" => v < c
  | "all" => true
  | _ => false

def updF (mode : String) (c : Int) (d : Option Int) : Option Int :=
  match mode with
  | "0" => none
  | "1" => some c
  | "2" => d.map (fun v => Int.tmod (v + c) 1000)
  | _ => match d with
    | none => some c
    | some _ => none

def cunF (mode : String) (_k v1 v2 : Int) : Option Int :=
  match mode with
  | "0" => some (Int.tmod (v1 + v2) 1000)
  | "1" => none
  | "3" => some v1
  | _ => some v2

def mrgF (mode : String) (_k : Int) (a b : Option Int) : Option Int :=
  match mode with
  | "0" => match a with
    | some x => some x
    | none => b
  | "1" => match a, b with
    | some x, some y => some (Int.tmod (x + y) 1000)
    | _, _ => none
  | _ => match a, b with
    | some _, some _ => none
    | some x, none => some x
    | none, b => b

def smapF (mode : String) (c : Int) (x : Int) : Int :=
  match mode with
  | "0" => x + c
  | "1" => 0 - x
  | "3" => x
  | _ => c

def showOptKV : Option (Int × Int) → String
  | none => "none"
  | some (k, v) => s!"some {k} {v}"

def showOptI : Option Int → String
  | none => "none"
  | some v => s!"some {v}"

def showB (b : Bool) : String := if b then "true" else "false"

def fuelOf (a b : Nat) : Nat := (a + 2) * (b + 2) + 16

def die (st : St) : St × String := ({ st with dead := true }, "panic")

/-- result of a possibly panicking map operation stored into a register -/
def storeM (st : St) (d : String) (r : Option M) : St × String :=
  match r with
  | none => die st
  | some m => (setM st d m, dumpM m)

def storeS (st : St) (d : String) (r : Option S) : St × String :=
  match r with
  | none => die st
  | some m => (setS st d m, dumpS m)

def storeL (st : St) (d : String) (l : L) : St × String := (setL st d l, dumpL l)

def step (st : St) (line : String) : St × String :=
  if line.trimAscii.toString == "reset" then ({}, "ok") else
  if st.dead then (st, "dead") else
  match words line with
  -- maps
  | ["mins", d, s, k, v] => storeM st d (StdMap.insert cmp (getM st s) (int k) (int v))
  | ["mrem", d, s, k] => storeM st d (StdMap.remove cmp (getM st s) (int k))
  | ["mget", s, k] => (st, showOptI (StdMap.get cmp (getM st s) (int k)))
  | ["mhas", s, k] => (st, showB (StdMap.containsKey cmp (getM st s) (int k)))
  | ["mupd", d, s, k, mode, c] =>
    storeM st d (StdMap.update cmp (updF mode (int c)) (getM st s) (int k))
  | ["muni", d, a, b] =>
    let x := getM st a; let y := getM st b
    match StdMap.union cmp (fuelOf (StdMap.nodes x) (StdMap.nodes y)) x y with
    | none => (st, "oof")
    | some r => storeM st d r
  | ["mcun", d, a, b, mode] =>
    let x := getM st a; let y := getM st b
    match StdMap.customizedUnion cmp (cunF mode) (fuelOf (StdMap.nodes x) (StdMap.nodes y)) x y with
    | none => (st, "oof")
    | some r => storeM st d r
  | ["mmrg", d, a, b, mode] =>
    let x := getM st a; let y := getM st b
    match StdMap.merge cmp (mrgF mode) (fuelOf (StdMap.nodes x) (StdMap.nodes y)) x y with
    | none => (st, "oof")
    | some r => storeM st d r
  | ["mspl", d1, d2, s, k] =>
    match StdMap.split cmp (getM st s) (int k) with
    | none => die st
    | some (l, pres, r) =>
      (setM (setM st d1 l) d2 r, s!"{dumpM l} {showOptI pres} {dumpM r}")
  | ["mfil", d, s, p, c] => storeM st d (StdMap.filter (predKV p (int c)) (getM st s))
  | ["mpar", d1, d2, s, p, c] =>
    match StdMap.partition (predKV p (int c)) (getM st s) with
    | none => die st
    | some (a, b) => (setM (setM st d1 a) d2 b, s!"{dumpM a} {dumpM b}")
  | ["mfold", s] =>
    (st, StdMap.fold (fun (acc : String) k v => acc ++ s!"{k}:{v};") (getM st s) "")
  | ["mmin", s] => (st, showOptKV (StdMap.min (getM st s)))
  | ["mmax", s] => (st, showOptKV (StdMap.max (getM st s)))
  | ["msize", s] => (st, showI (StdMap.size (getM st s)))
  | ["ment", s] =>
    (st, "[" ++ ",".intercalate ((StdMap.entries (getM st s)).map fun (k, v) => s!"{k}:{v}") ++ "]")
  | ["mkeys", d, s] => storeL st d (StdList.ofList (StdMap.keys (getM st s)))
  | ["mmap", d, s, c] =>
    storeM st d (some (StdMap.mapValues (fun _ v => Int.tmod (v + int c) 1000) (getM st s)))
  | ["mall", s, p, c] => (st, showB (StdMap.forAll (predKV p (int c)) (getM st s)))
  | ["many", s, p, c] => (st, showB (StdMap.«exists» (predKV p (int c)) (getM st s)))
  | ["mcmp", a, b] => (st, showI (StdMap.compare cmp (fun x y => x - y) (getM st a) (getM st b)))
  | ["meq", a, b] => (st, showB (StdMap.equal cmp (fun x y => x == y) (getM st a) (getM st b)))
  | ["miter", s] => (st, StdMap.iter (fun k v (acc : String) => acc ++ s!"{k}:{v};") (getM st s) "" ++ "end")
  | ["mmink", s] => (st, showOptI (StdMap.minKey (getM st s)))
  | ["mmaxk", s] => (st, showOptI (StdMap.maxKey (getM st s)))
  -- sets
  | ["scmp", a, b] => (st, showI (StdSet.compare cmp cmp (getS st a) (getS st b)))
  | ["seq", a, b] => (st, showB (StdSet.equal cmp (fun x y => x == y) (getS st a) (getS st b)))
  | ["siter", s] => (st, StdSet.iter (fun v (acc : String) => acc ++ s!"{v};") (getS st s) "" ++ "end")
  | ["sins", d, s, x] => storeS st d (StdSet.insert cmp (getS st s) (int x))
  | ["srem", d, s, x] => storeS st d (StdSet.remove cmp (getS st s) (int x))
  | ["shas", s, x] => (st, showB (StdSet.contains cmp (getS st s) (int x)))
  | ["suni", d, a, b] =>
    let x := getS st a; let y := getS st b
    match StdSet.union cmp (fuelOf (StdSet.nodes x) (StdSet.nodes y)) x y with
    | none => (st, "oof")
    | some r => storeS st d r
  | ["sint", d, a, b] => storeS st d (StdSet.intersection cmp (getS st a) (getS st b))
  | ["sdif", d, a, b] => storeS st d (StdSet.diff cmp (getS st a) (getS st b))
  | ["ssub", a, b] =>
    let x := getS st a; let y := getS st b
    match StdSet.subset cmp (fuelOf (StdSet.nodes x) (StdSet.nodes y)) x y with
    | none => (st, "oof")
    | some r => (st, showB r)
  | ["sdis", a, b] =>
    match StdSet.intersection cmp (getS st a) (getS st b) with
    | none => die st
    | some r => (st, showB (StdSet.isEmpty r))
  | ["sspl", d1, d2, s, x] =>
    match StdSet.split cmp (getS st s) (int x) with
    | none => die st
    | some (l, pres, r) =>
      (setS (setS st d1 l) d2 r, s!"{dumpS l} {showB pres} {dumpS r}")
  | ["sfil", d, s, p, c] => storeS st d (StdSet.filter (pred p (int c)) (getS st s))
  | ["spar", d1, d2, s, p, c] =>
    match StdSet.partition (pred p (int c)) (getS st s) with
    | none => die st
    | some (a, b) => (setS (setS st d1 a) d2 b, s!"{dumpS a} {dumpS b}")
  | ["sfold", s] => (st, StdSet.fold (fun (acc : String) v => acc ++ s!"{v};") (getS st s) "")
  | ["smin", s] => (st, showOptI (StdSet.min (getS st s)))
  | ["smax", s] => (st, showOptI (StdSet.max (getS st s)))
  | ["ssize", s] => (st, showI (StdSet.size (getS st s)))
  | ["sels", d, s] => storeL st d (StdList.ofList (StdSet.elements (getS st s)))
  | ["sfrl", d, l] => storeS st d (StdSet.fromList cmp (StdList.toList (getL st l)) .empty)
  | ["sall", s, p, c] => (st, showB (StdSet.forAll (pred p (int c)) (getS st s)))
  | ["sany", s, p, c] => (st, showB (StdSet.«exists» (pred p (int c)) (getS st s)))
  | ["smap", d, s, mode, c] =>
    let x := getS st s
    match StdSet.map cmp (fun a b => mode == "3" && a == b) (smapF mode (int c)) (fuelOf (StdSet.nodes x) (StdSet.nodes x)) x with
    | none => (st, "oof")
    | some r => storeS st d r
  -- lists
  | ["lcons", d, s, x] => storeL st d (.cons (int x) (getL st s))
  | ["lof", d, x] => storeL st d (.cons (int x) .nil)
  | ["lapp", d, a, b] => storeL st d (StdList.append (getL st a) (getL st b))
  | ["lrev", d, s] => storeL st d (StdList.reverse (getL st s))
  | ["lrap", d, a, b] => storeL st d (StdList.reverseAndAppend (getL st a) (getL st b))
  | ["lfil", d, s, p, c] => storeL st d (StdList.filter (pred p (int c)) (getL st s))
  | ["lmap", d, s, c] => storeL st d (StdList.map (fun x => Int.tmod x 1000 * 2 + int c) (getL st s))
  | ["lfmp", d, s, p, c] =>
    storeL st d (StdList.filterMap
      (fun x => if pred p (int c) x then some (Int.tmod x 1000 + 1) else none) (getL st s))
  | ["llen", s] => (st, showI (StdList.length (getL st s)))
  | ["lfst", s] => (st, showOptI (StdList.first (getL st s)))
  | ["lrst", d, s] =>
    match StdList.rest (getL st s) with
    | none => (setL st d .nil, "none")
    | some r => (setL st d r, "some " ++ dumpL r)
  | ["lfold", s] => (st, StdList.fold (fun (acc : String) x => acc ++ s!"{x};") (getL st s) "")
  | ["lfdr", s] => (st, StdList.foldRight (fun x (acc : String) => acc ++ s!"{x};") (getL st s) "")
  | ["lhas", s, x] => (st, showB (StdList.contains (int x) (fun a b => a == b) (getL st s)))
  | ["lall", s, p, c] => (st, showB (StdList.forAll (pred p (int c)) (getL st s)))
  | ["lany", s, p, c] => (st, showB (StdList.«exists» (pred p (int c)) (getL st s)))
  | ["lfnd", s, p, c] => (st, showOptI (StdList.find (pred p (int c)) (getL st s)))
  | ["lfdm", s, p, c] =>
    (st, showOptI (StdList.findMap
      (fun x => if pred p (int c) x then some (Int.tmod x 1000 * 2) else none) (getL st s)))
  | ["lbnd", d, s, c] =>
    storeL st d (StdList.bind (fun x => .cons x (.cons (Int.tmod x 1000 + int c) .nil)) (getL st s))
  | ["lflt", d, a, b, c] =>
    storeL st d (StdList.flatten (.cons (getL st a) (.cons (getL st b) (.cons (getL st c) .nil))))
  | ["liter", s] => (st, StdList.iter (fun x (acc : String) => acc ++ s!"{x};") (getL st s) "" ++ "end")
  | ["optx", a, p, c] =>
    let o : StdAux.SOption Int := StdAux.SOption.filter (pred p (int c)) (.some (int a))
    let so (x : StdAux.SOption Int) : String := showOptI x.toOption
    let pre := StdAux.SOption.iter (fun x (acc : String) => acc ++ s!"{x};") o ""
    let o2 : StdAux.SOption Int := StdAux.SOption.filter (fun x => Int.tmod x 2 != 0) (.some (int c))
    let both := match (StdAux.SOption.both o o2).toOption with
      | none => "none"
      | some pr => s!"some {pr.e0},{pr.e1}"
    (st, pre ++ so (StdAux.SOption.map (· + 1) o) ++ "|" ++ so (StdAux.SOption.filter (fun x => Int.tmod x 2 != 0) o)
      ++ "|" ++ so (StdAux.SOption.bind (fun x => if Int.tmod x 2 != 0 then .some (x * 2) else .none) o)
      ++ "|" ++ showI (StdAux.SOption.valueMap (-1) (· + int c) o)
      ++ "|" ++ showB (StdAux.SOption.isSome o) ++ showB (StdAux.SOption.isNone o)
      ++ "|" ++ both ++ "|" ++ so (StdAux.SOption.tryUnwrap o))
  | ["resx", a, p, c] =>
    let o : StdAux.SOption Int := StdAux.SOption.filter (pred p (int c)) (.some (int a))
    let r : StdAux.SResult Int Int := StdAux.SResult.fromOption o (int c)
    let sr {α : Type} (f : α → String) (x : StdAux.SResult α Int) : String := match x with
      | .ok v => "ok " ++ f v
      | .error e => s!"err {e}"
    let pre := StdAux.SResult.iterError (fun e (acc : String) => acc ++ s!"{e};")
      r (StdAux.SResult.iter (fun x (acc : String) => acc ++ s!"{x};") r "")
    (st, pre ++ sr showI r ++ "|" ++ showB (StdAux.SResult.isOk r) ++ showB (StdAux.SResult.isError r)
      ++ "|" ++ showOptI (StdAux.SResult.ok? r).toOption
      ++ "|" ++ sr showI (StdAux.SResult.map (· + 1) r)
      ++ "|" ++ sr showI (StdAux.SResult.mapError (· + 1) r)
      ++ "|" ++ sr (fun _ => "unit") (StdAux.SResult.ignore r)
      ++ "|" ++ showOptI (StdAux.SResult.tryUnwrap r).toOption)
  | ["lemp", s] => (st, showB (StdList.isEmpty (getL st s)))
  | ["scmp2", a, b] => (st, showI (StdSet.compare cmp (fun _ _ => 7) (getS st a) (getS st b)))
  | ["bool", x, y] =>
    let bx := x == "1"; let by' := y == "1"
    match StdSet.insert cmp (.empty : S) (StdAux.boolIntValue bx) with
    | none => die st
    | some s1 =>
      match StdSet.insert cmp s1 (StdAux.boolIntValue by') with
      | none => die st
      | some s2 =>
        (st, StdSet.fold (fun (acc : String) v => acc ++ (if v == 1 then "true" else "false") ++ ";") s2 ""
          ++ "|" ++ showI (StdAux.boolCompare bx by') ++ "|" ++ showI (StdAux.boolIntValue bx))
  | ["ounw", a, p, c] =>
    match StdAux.SOption.unwrap (StdAux.SOption.filter (pred p (int c)) (.some (int a))) with
    | none => die st
    | some v => (st, showI v)
  | ["rexp", a, p, c] =>
    match StdAux.SResult.expect (StdAux.SResult.fromOption (E := Int) (StdAux.SOption.filter (pred p (int c)) (.some (int a))) (int c)) with
    | none => die st
    | some v => (st, showI v)
  | ["runw", a, p, c] =>
    match StdAux.SResult.unwrap (StdAux.SResult.fromOption (E := Int) (StdAux.SOption.filter (pred p (int c)) (.some (int a))) (int c)) with
    | none => die st
    | some v => (st, showI v)
  | _ => (st, "bad-op")

def run : IO Unit := runLoop ({} : St) step

end Driver.C18

def main (_args : List String) : IO UInt32 := do
  Driver.C18.run
  return 0
