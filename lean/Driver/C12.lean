import Driver.Util
/-! Line-protocol driver for property C12 (model side). Not implemented yet. -/
def main (_args : List String) : IO UInt32 := do
  IO.eprintln "drv-c12: not implemented yet"
  return 2
