import SamVerif.Model.ErrorSet
import SamVerif.Model.RenderByName
import SamVerif.Model.Layout
import SamVerif.Model.TempCounter
import SamVerif.Model.ModuleOrder
import Driver.Util
/-! Protocol `errset` (C12): builds per-module error sets with the model of
`samlang_errors::ErrorSet`, merges them in the given order and prints the resulting sequence.

line:  `merge <M> <S> <groups>`
  `<M>`  allocation order of the module handles, e.g. `2,0,1` (handle 2 is allocated first)
  `<S>`  allocation order of the heap-string handles (or `-`)
  `<groups>` groups separated by `;`, errors inside a group by `,` (a group may be `-` = empty)
  error: `m.sl.sc.el.ec.rank.atoms`, atoms joined by `+` (or `-`): `n<k>` number, `i<hex>` inline
  string / text, `h<k>` heap string handle k, `m<k>` module handle k
answer: the merged sequence, errors in the same syntax, joined by `,` (or `-`). -/
namespace Driver.C12
open SamVerif.ErrorSet Driver

def natsOf (s : String) : List Nat :=
  if s == "-" then [] else (s.splitOn ",").map String.toNat!

def idxOf (l : List Nat) (x : Nat) : Nat :=
  match l with
  | [] => 0
  | y :: ys => if x = y then 0 else idxOf ys x + 1

/-- handle names: modules `k`, heap strings `1000 + k` -/
def mkIds (ms ss : List Nat) (h : Nat) : Nat :=
  if h < 1000 then idxOf ms h else idxOf ss (h - 1000)

def parseAtom (s : String) : Atom :=
  let body := (s.drop 1).toString
  match s.front with
  | 'n' => .num body.toNat!
  | 'i' => .inl ((bytesOfHex body).map (·.toNat))
  | 'h' => .heap (1000 + body.toNat!)
  | _ => .heap body.toNat!

def showAtom : Atom → String
  | .num n => s!"n{n}"
  | .inl bs => "i" ++ hexOfBytes (bs.map UInt8.ofNat)
  | .heap h => if h < 1000 then s!"m{h}" else s!"h{h - 1000}"

def parseErr (s : String) : Option Err :=
  match s.splitOn "." with
  | [m, sl, sc, el, ec, rank, atoms] =>
    some { modl := m.toNat!, sl := sl.toNat!, sc := sc.toNat!, el := el.toNat!, ec := ec.toNat!,
           rank := rank.toNat!,
           atoms := if atoms == "-" then [] else (atoms.splitOn "+").map parseAtom }
  | _ => none

def showErr (e : Err) : String :=
  let atoms := if e.atoms.isEmpty then "-" else "+".intercalate (e.atoms.map showAtom)
  s!"{e.modl}.{e.sl}.{e.sc}.{e.el}.{e.ec}.{e.rank}.{atoms}"

def parseGroup (s : String) : List Err :=
  if s == "-" then [] else (s.splitOn ",").filterMap parseErr

def step (_ : Unit) (line : String) : Unit × String :=
  match words line with
  | ["merge", m, s, groups] =>
    let ids := mkIds (natsOf m) (natsOf s)
    let pm := (groups.splitOn ";").map parseGroup
    let out := render ids pm
    ((), if out.isEmpty then "-" else ",".intercalate (out.map showErr))
  | ["mergen", m, s, groups] =>
    -- report in module-name order (names `M<k>`, k < 10: name order = numeric order of the handles)
    let ms := natsOf m
    let ids := mkIds ms (natsOf s)
    let pm := (groups.splitOn ";").map parseGroup
    let names := (List.range 10).filter fun k => ms.contains k
    -- the stable sort by module name of the set sequence (report_is_concat_of_module_reports shows
    -- it equals `renderByName names ids pm`); `names` only fixes the key range
    let out := if names.isEmpty then [] else sSort (fun (a b : Err) => decide (a.modl < b.modl)) (render ids pm)
    ((), if out.isEmpty then "-" else ",".intercalate (out.map fun e =>
      let tag := if e.rank == 3 then
          match e.atoms with
          | [a] => "3#" ++ showAtom a
          | _ => "3"
        else toString e.rank
      s!"M{e.modl}.sam:{e.sl + 1}:{e.sc + 1}-{e.el + 1}:{e.ec + 1}#{tag}"))
  | ["pord", names] =>
    -- parse order of the modules: names = hex of the dotted module names, indexed by handle;
    -- answer = handles in parse order
    let nameBytes : List (List Nat) := (names.splitOn ";").map fun h => (bytesOfHex h).map (·.toNat)
    let splitDots (bs : List Nat) : List (List Nat) :=
      (bs.foldl (fun (acc : List (List Nat)) b =>
        if b = 46 then [] :: acc else match acc with
          | cur :: rest => (cur ++ [b]) :: rest
          | [] => [[b]]) [[]]).reverse
    -- long parts become heap atoms `h` with content table `tbl`
    let (mods, tbl) := nameBytes.foldl (fun (acc : List (List Atom) × List (List Nat)) bs =>
      let (ps, tbl) := (splitDots bs).foldl (fun (a : List Atom × List (List Nat)) part =>
        if part.length ≤ 15 then (a.1 ++ [Atom.inl part], a.2)
        else (a.1 ++ [Atom.heap a.2.length], a.2 ++ [part])) ([], acc.2)
      (acc.1 ++ [ps], tbl)) ([], [])
    let content (h : Nat) : List Nat := tbl.getD h []
    let sorted := orderByName content mods
    let idxOfName (n : List Nat) : Nat := (nameBytes.findIdx? (· == n)).getD 999
    ((), ",".intercalate (sorted.map fun n => toString (idxOfName n)))
  | ["layout", defs, roots] =>
    -- defs: enum `name:variant|variant`, struct `name=fields`; variant/fields = types joined by `+` (`i` int, number = type name), `-` = none
    let parseTy (t : String) : SamVerif.Layout.Ty := if t == "i" then .int else .id t.toNat!
    let parseVariant (v : String) : List SamVerif.Layout.Ty :=
      if v == "-" then [] else (v.splitOn "+").map parseTy
    let ds : SamVerif.Layout.Defs := (defs.splitOn ";").filterMap fun d =>
      match d.splitOn ":" with
      | [n, vs] => some (n.toNat!, .enum ((vs.splitOn "|").map parseVariant))
      | _ =>
        match d.splitOn "=" with
        | [n, fs] => some (n.toNat!, .struct (parseVariant fs))
        | _ => none
    let st := SamVerif.Layout.layoutAll ds (natsOf roots)
    let showV : SamVerif.Layout.VLayout → String
      | .int31 => "i" | .unboxed => "u" | .boxed => "b"
    let items := ds.map fun (n, _) =>
      match SamVerif.Layout.lookup st.done n with
      | some (.enumL l) => s!"{n}:" ++ ",".intercalate (l.map showV)
      | some .structL => s!"{n}:s"
      | none => s!"{n}:?"
    ((), " ".intercalate items)
  | ["tc", start, sched] =>
    -- temp counter: names per worker under the schedule, and the same obtained by renaming the
    -- names of the sequential schedule (workers in blocks) with `renameTo`
    let st := start.toNat!
    let sc := natsOf sched
    let workers := (List.range (sc.foldl Nat.max 0 + 1)).filter fun w => sc.count w > 0
    let seq := workers.flatMap fun w => List.replicate (sc.count w) w
    let showW (f : Nat → Nat → Option Nat) : String :=
      ";".intercalate (workers.map fun w =>
        s!"{w}:" ++ ",".intercalate ((List.range (sc.count w)).map fun c =>
          match f w c with
          | some n => toString n
          | none => "?"))
    let direct := showW (SamVerif.TempCounter.tempName st sc)
    let viaSeq := showW fun w c =>
      (SamVerif.TempCounter.tempName st seq w c).map (SamVerif.TempCounter.renameTo st seq sc)
    -- and from the small-step machine with the atomic read-modify-write
    let cs := SamVerif.TempCounter.crun st (sc.map .rmw)
    let viaSteps := ";".intercalate (workers.map fun w =>
      s!"{w}:" ++ ",".intercalate ((cs.issued.filter (·.1 == w)).map fun p => toString p.2))
    ((), direct ++ " | " ++ viaSeq ++ " | " ++ viaSteps)
  | _ => ((), "bad-op")

def run : IO Unit := runLoop () step

end Driver.C12

def main (_args : List String) : IO UInt32 := do
  Driver.C12.run
  return 0
