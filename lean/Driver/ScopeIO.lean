import SamVerif.Model.Scope
import Driver.Util
/-! Reader for the module dump of `harness/src/scopedump.rs` and canonical printer of the model's
analysis result (shared by drv-c13 / drv-c15). -/
namespace Driver.ScopeIO
open SamVerif.Scope Driver

inductive Sx where
  | node (tag : String) (name : String) (loc : Nat) (kids : List Sx)
  deriving Inhabited

/-- tokens `( tag name loc kid* )`; returns the node and the remaining tokens -/
partial def parseSx : List String → Option (Sx × List String)
  | "(" :: tag :: name :: loc :: rest =>
    let rec kids (acc : List Sx) : List String → Option (List Sx × List String)
      | ")" :: r => some (acc.reverse, r)
      | toks => match parseSx toks with
        | some (k, r) => kids (k :: acc) r
        | none => none
    match kids [] rest with
    | some (ks, r) => some (.node tag name loc.toNat! ks, r)
    | none => none
  | _ => none

def tagOf : String → Tag
  | "none" => .none | "var" => .var | "ifGuard" => .ifGuard | "decl" => .decl | "case" => .case
  | "lambda" => .lambda | "param" => .param | "block" => .block | "pId" => .pId | "pOr" => .pOr
  | "tyUse" => .tyUse | _ => .seq

def optName (s : String) : Option String := if s == "-" then none else some s

instance : Inhabited (Node String) := ⟨.mk .seq none 0 []⟩

partial def toNode : Sx → Node String
  | .node tag name loc kids => .mk (tagOf tag) (optName name) loc (kids.map toNode)

def kidsOf : Sx → List Sx | .node _ _ _ ks => ks
def tagS : Sx → String | .node t _ _ _ => t
def nameS : Sx → String | .node _ n _ _ => n
def locS : Sx → Nat | .node _ _ l _ => l

def toTParam (s : Sx) : TParam String :=
  { name := nameS s, loc := locS s,
    bound := match kidsOf s with
      | b :: _ => some (nameS b, locS b, (kidsOf b).map toNode)
      | [] => none }

def child (s : Sx) (tag : String) : List Sx :=
  match (kidsOf s).find? (fun k => tagS k == tag) with
  | some k => kidsOf k
  | none => []

def xloc (s : Sx) : Nat :=
  match (kidsOf s).find? (fun k => tagS k == "x") with
  | some k => locS k
  | none => 0

def firstNode (l : List Sx) : Node String :=
  match l with | k :: _ => toNode k | [] => .mk .seq none 0 []

def toMember (s : Sx) : Member String :=
  { name := nameS s, nameLoc := locS s, loc := xloc s, isMethod := tagS s == "method",
    tparams := (child s "tps").map toTParam,
    params := (child s "params").map fun p => (nameS p, locS p, firstNode (kidsOf p)),
    ret := firstNode (child s "ret"),
    body := match child s "body" with | b :: _ => some (toNode b) | [] => none }

def toTypeDef (s : Sx) : TypeDef String :=
  match (kidsOf s).find? (fun k => (tagS k).startsWith "td") with
  | some k =>
    if tagS k == "tdstruct" then .struct ((kidsOf k).map fun f => (nameS f, locS f, firstNode (kidsOf f)))
    else if tagS k == "tdenum" then .enum ((kidsOf k).map fun v => (nameS v, locS v, (kidsOf v).map toNode))
    else .none
  | none => .none

def toToplevel (s : Sx) : Toplevel String :=
  { isClass := tagS s == "class", name := nameS s, nameLoc := locS s, loc := xloc s,
    tparams := (child s "tps").map toTParam,
    supers := (child s "sups").map fun p => (nameS p, locS p, (kidsOf p).map toNode),
    typeDef := toTypeDef s,
    members := (child s "mems").map toMember }

def toModule (s : Sx) : Module String :=
  { imports := ((kidsOf s).filter (fun k => tagS k == "imp")).map fun i => (nameS i, locS i),
    toplevels := ((kidsOf s).filter (fun k => tagS k == "class" || tagS k == "iface")).map toToplevel }

def parseModule (toks : List String) : Option (Module String) :=
  match parseSx toks with
  | some (s, _) => some (toModule s)
  | none => none

def sortS (l : List String) : List String := l.mergeSort (fun a b => decide (a ≤ b))

def dedupS (l : List String) : List String := (sortS l).eraseDups

def showScope (s : Scope String) : String :=
  "+".intercalate (sortS (List.map (fun (e : String × Nat) => s!"{e.1}={e.2}") s))

def showErr : Err String → String
  | .alreadyBound l n p => s!"B{l}/{n}/{p}"
  | .cannotResolve l n => s!"R{l}/{n}"

/-- same format as `Dumper::render` -/
def render (st : St String) : String :=
  let j (l : List String) := ",".intercalate l
  let u := j (dedupS st.unbound)
  let i := j (dedupS (st.invalid.map toString))
  let m := j (sortS (st.useDef.map fun e => s!"{e.1}>{e.2}"))
  let d := j (sortS ((defToUse st).map fun e => s!"{e.1}:{"+".intercalate (sortS (e.2.map toString))}"))
  let s := j (sortS (st.scopedDefs.map fun e => s!"{e.1}:{showScope e.2}"))
  let c := j (sortS (st.lambdaCaps.map fun e => s!"{e.1}:{showScope e.2}"))
  let e := j (dedupS (st.errors.map showErr))
  s!"U[{u}] I[{i}] M[{m}] D[{d}] S[{s}] C[{c}] E[{e}]" ++
    (if st.underflow > 0 then s!" UNDERFLOW{st.underflow}" else "")

end Driver.ScopeIO
