import SamVerif.Model.Heap
import Driver.Util
/-! Protocol `heapops` (C17): replays API calls through `SamVerif.Heap`. -/
namespace Driver.C17
open SamVerif.Heap Driver

structure St where
  heap : Heap := init
  handles : List (String × Handle) := []
  counter : Option Nat := none

def showHandle : Handle → String
  | .inl s => "i:" ++ hexOfBytes s
  | .ref id => "r:" ++ toString id

def getH (st : St) (s : String) : Option Handle := (st.handles.find? (·.1 == s)).map (·.2)

def bind (st : St) (v : String) (p : Handle) : List (String × Handle) :=
  (v, p) :: st.handles.filter (·.1 != v)

/-- `get_allocated_str_opt` -/
def getAllocatedStrOpt (h : Heap) (s : Bytes) : Option Handle :=
  if s.length ≤ inlineMax then some (.inl s)
  else match lookup h.internStatic s with
    | some id => some (.ref id)
    | none => (lookup h.internTemp s).map .ref

def intercalate (sep : List UInt8) : List Bytes → Bytes
  | [] => []
  | [x] => x
  | x :: xs => x ++ sep ++ intercalate sep xs

def step (st : St) (line : String) : St × String :=
  match words line with
  | ["reset"] => ({}, "ok")
  | ["as", v, s] =>
    let (h, p) := allocString st.heap (bytesOfHex s)
    ({ st with heap := h, handles := bind st v p }, showHandle p)
  | ["st", v, s] =>
    let (h, p) := allocStatic st.heap (bytesOfHex s)
    ({ st with heap := h, handles := bind st v p }, showHandle p)
  | ["at", v] =>
    let name := ("_t" ++ toString st.heap.slots.length).toUTF8.toList
    let (h, p) := allocTemp st.heap name
    ({ st with heap := h, handles := bind st v p }, showHandle p)
  | ["tc"] => ({ st with counter := some st.heap.slots.length }, "ok")
  | ["tca", v] =>
    match st.counter with
    | some c =>
      let p := Handle.inl ("_t" ++ toString c).toUTF8.toList
      ({ st with counter := some (c + 1), handles := bind st v p }, showHandle p)
    | none => (st, "skip")
  | ["tcs"] =>
    match st.counter with
    | some c => ({ st with heap := syncTempCounter st.heap c, counter := none }, "ok")
    | none => (st, "skip")
  | "am" :: hs =>
    let ps := hs.map (getH st)
    if ps.all Option.isSome then
      let (h, m) := allocModuleRef st.heap (ps.filterMap id)
      ({ st with heap := h }, "m:" ++ toString m)
    else (st, "skip")
  | "ams" :: ss =>
    let (h, ps) := ss.foldl (fun (acc : Heap × List Handle) s =>
      let (h, p) := allocStatic acc.1 (bytesOfHex s); (h, acc.2 ++ [p])) (st.heap, [])
    let (h, m) := allocModuleRef h ps
    ({ st with heap := h }, "m:" ++ toString m)
  | "gm" :: ss =>
    let ps := ss.map fun s => getAllocatedStrOpt st.heap (bytesOfHex s)
    if ps.all Option.isSome then
      match findIdx st.heap.modRefs (ps.filterMap id) with
      | some i => (st, "m:" ++ toString i)
      | none => (st, "none")
    else (st, "none")
  | ["au", m] =>
    let i := m.toNat!
    if i < st.heap.modRefs.length then ({ st with heap := addUnmarked st.heap i }, "ok")
    else (st, "skip")
  | ["pop", c] =>
    let choice := if c == "none" then none else c.toNat?
    match popUnmarked st.heap choice with
    | some h => ({ st with heap := h }, "p:" ++ c)
    | none => (st, "bad-choice")
  | ["mk", p] =>
    match getH st p with
    | some x => ({ st with heap := mark st.heap x }, "ok")
    | none => (st, "skip")
  | ["sw", n] =>
    let w := n.toNat!
    if sweepOk st.heap w then ({ st with heap := sweep st.heap w }, "ok") else (st, "panic")
  | ["rd", p] =>
    match getH st p with
    | none => (st, "skip")
    | some x =>
      match read st.heap x with
      | some s => (st, "s:" ++ hexOfBytes s)
      | none => (st, "panic")
  | ["mp", m] =>
    let i := m.toNat!
    match st.heap.modRefs[i]? with
    | none => (st, "skip")
    | some parts =>
      let rs := parts.map (read st.heap)
      if rs.all Option.isSome then
        let ps := rs.filterMap id
        -- pretty_print: parts joined by '.', to_filename: by '/' + ".sam", encoded: '-' -> '_' joined by '$'
        let enc := ps.map (fun b => b.map (fun c => if c == 45 then 95 else c))
        let isStd := match ps with | p :: _ => p == [115, 116, 100] | [] => false
        (st, "s:" ++ hexOfBytes (intercalate [46] ps) ++ " f:" ++ hexOfBytes (intercalate [47] ps ++ [46, 115, 97, 109])
              ++ " e:" ++ hexOfBytes (intercalate [36] enc) ++ " std:" ++ (if isStd then "1" else "0"))
      else (st, "panic")
  | ["stat"] =>
    let (t, u, d) := stat st.heap
    (st, s!"{t} {u} {d}")
  | ["du"] =>
    let l := debugUnmarked st.heap
    (st, if l.isEmpty then "-" else ",".intercalate (l.map hexOfBytes))
  | ["cmp", a, b] =>
    match getH st a, getH st b with
    | some x, some y => (st, s!"eq:{if x = y then 1 else 0} ord:{cmpHandle x y}")
    | _, _ => (st, "skip")
  | _ => (st, "bad-op")

def run : IO Unit := runLoop ({} : St) step

end Driver.C17

def main (_args : List String) : IO UInt32 := do
  Driver.C17.run
  return 0
