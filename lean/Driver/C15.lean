import SamVerif.Model.Scope
import Driver.ScopeIO
import Driver.Util
/-! Line-protocol driver for property C15 (model side).
  `ssa <module dump>`                  -> canonical result of `SamVerif.Scope.analyze`
  `q <module dump> ;; <occurrence ids>` -> `occ:def:refs` per occurrence
     (`find_all_definition_and_uses`, variable_definition.rs:41-50, on the model's analysis) -/
namespace Driver.C15
open SamVerif.Scope Driver Driver.ScopeIO

def splitAt2 (toks : List String) : List String × List String :=
  (toks.takeWhile (· ≠ ";;"), (toks.dropWhile (· ≠ ";;")).drop 1)

def answer (st : St String) (o : Nat) : String :=
  let d := (lookupKV o st.useDef).getD o
  match lookupKV d (defToUse st) with
  | none => s!"{o}:none:"
  | some us =>
    let sorted := (us.eraseDups.mergeSort (fun a b => decide (a ≤ b)))
    s!"{o}:{d}:{"+".intercalate (sorted.map toString)}"

def step (_ : Unit) (line : String) : Unit × String :=
  match words line with
  | "ssa" :: toks =>
    match parseModule toks with
    | some m => ((), render (analyze "this" m))
    | none => ((), "bad-dump")
  | "q" :: toks =>
    let (dump, occ) := splitAt2 toks
    match parseModule dump with
    | some m =>
      let st := analyze "this" m
      ((), ",".intercalate (occ.map fun o => answer st o.toNat!))
    | none => ((), "bad-dump")
  | _ => ((), "bad-op")

end Driver.C15

def main (_args : List String) : IO UInt32 := do
  Driver.runLoop () Driver.C15.step
  return 0
