import SamVerif.Model.Source
import Driver.Util
import Std.Data.HashMap
/-! Driver of the reference semantics (SRC): reads one dump of `harness/src/bin/srcdump.rs` per
stdin line, evaluates `Main.main` of the entry module with `SamVerif.Source.run`, prints
`<end> <flags> <n> <hex line>*` where `<end>` is `ok | panic:<hex> | trap:<kind> | oof | bad-dump:<why>`.
`drv-src [fuel]` (default 100000000).  Only reading the dump happens here; all evaluation is the model's. -/
namespace Driver.SRC
open SamVerif.Source Driver

inductive SExp where
  | atom (s : String)
  | list (xs : List SExp)
  deriving Inhabited

/-- tokens: "(" , ")" , atoms -/
def tokenize (s : String) : Array String := Id.run do
  let mut toks : Array String := #[]
  let mut cur : String := ""
  for c in s.toList do
    if c == '(' || c == ')' then
      if !cur.isEmpty then
        toks := toks.push cur
        cur := ""
      toks := toks.push (String.singleton c)
    else if c == ' ' || c == '\n' || c == '\r' || c == '\t' then
      if !cur.isEmpty then
        toks := toks.push cur
        cur := ""
    else
      cur := cur.push c
  if !cur.isEmpty then toks := toks.push cur
  return toks

/-- parses the forms up to the matching ")" (or the end); returns them and the next index -/
partial def parseSeq (toks : Array String) (i : Nat) (acc : Array SExp) : Array SExp × Nat :=
  if h : i < toks.size then
    let t := toks[i]
    if t == ")" then (acc, i + 1)
    else if t == "(" then
      let (xs, j) := parseSeq toks (i + 1) #[]
      parseSeq toks j (acc.push (.list xs.toList))
    else parseSeq toks (i + 1) (acc.push (.atom t))
  else (acc, i)

def strOfAtom (a : String) : String :=
  -- "x" + hex of UTF-8
  match String.fromUTF8? (ByteArray.mk (bytesOfHexChars (a.toList.drop 1)).toArray) with
  | some s => s
  | none => ""

def atomOf : SExp → Except String String
  | .atom s => pure s
  | .list _ => throw "atom expected"

def natOf (x : SExp) : Except String Nat := do
  let a ← atomOf x
  match a.toNat? with
  | some n => pure n
  | none => throw s!"number expected: {a}"

def intOf (x : SExp) : Except String Int := do
  let a ← atomOf x
  match a.toInt? with
  | some n => pure n
  | none => throw s!"integer expected: {a}"

partial def patOf : SExp → Except String Pat
  | .list [.atom "pw"] => pure .wild
  | .list [.atom "pv", .atom x] => pure (.var x)
  | .list (.atom "pt" :: ps) => do pure (.tuple (← ps.mapM patOf))
  | .list (.atom "po" :: es) => do
    let pairs ← es.mapM fun e => match e with
      | .list [i, _, p] => do pure ((← natOf i), (← patOf p))
      | _ => throw "object pattern element"
    pure (.obj (pairs.map (·.1)) (pairs.map (·.2)))
  | .list (.atom "pc" :: tag :: _ :: ps) => do pure (.variant (← natOf tag) (← ps.mapM patOf))
  | .list (.atom "por" :: ps) => do pure (.or (← ps.mapM patOf))
  | _ => throw "pattern"

def binOpOf : String → Except String BinOp
  | "mul" => pure .mul | "div" => pure .div | "mod" => pure .mod | "add" => pure .add
  | "sub" => pure .sub | "lt" => pure .lt | "le" => pure .le | "gt" => pure .gt | "ge" => pure .ge
  | "eq" => pure .eq | "ne" => pure .ne | "and" => pure .and | "or" => pure .or
  | "concat" => pure .concat
  | o => throw s!"operator {o}"

def recvOf (r : String) : Recv := if r.startsWith "?" then .dyn else .cls r

mutual
partial def exprOf : SExp → Except String Expr
  | .list [.atom "int", n] => do pure (.int (← intOf n))
  | .list [.atom "bool", .atom b] => pure (.bool (b == "1"))
  | .list [.atom "str", .atom h] => pure (.str (strOfAtom h))
  | .list [.atom "var", .atom x] => pure (.var x)
  | .list [.atom "cid", .atom c] => pure (.classId c)
  | .list (.atom "tup" :: .atom c :: es) => do pure (.tuple c (← es.mapM exprOf))
  | .list [.atom "fld", i, _, e] => do pure (.field (← natOf i) (← exprOf e))
  | .list [.atom "mth", .atom r, .atom n, e] => do pure (.method (recvOf r) n (← exprOf e))
  | .list [.atom "un", .atom "not", e] => do pure (.unary .not (← exprOf e))
  | .list [.atom "un", .atom "neg", e] => do pure (.unary .neg (← exprOf e))
  | .list (.atom "call" :: f :: args) => do pure (.call (← exprOf f) (← args.mapM exprOf))
  | .list [.atom "bin", .atom op, a, b] => do pure (.binary (← binOpOf op) (← exprOf a) (← exprOf b))
  | .list [.atom "if", c, a, b] => do pure (.ite (← exprOf c) (← exprOf a) (← exprOf b))
  | .list [.atom "iflet", p, e, a, b] => do
    pure (.iflet (← patOf p) (← exprOf e) (← exprOf a) (← exprOf b))
  | .list (.atom "match" :: e :: cases) => do
    let cs ← cases.mapM fun c => match c with
      | .list [p, b] => do pure ((← patOf p), (← exprOf b))
      | _ => throw "match arm"
    pure (.match (← exprOf e) cs)
  | .list [.atom "lam", .list ps, b] => do pure (.lam (← ps.mapM atomOf) (← exprOf b))
  | .list (.atom "blk" :: items) => blockOf items []
  | _ => throw "expression"
partial def blockOf : List SExp → List (Pat × Expr) → Except String Expr
  | [], acc => pure (.block acc.reverse none)
  | [.list [.atom "ret", e]], acc => do pure (.block acc.reverse (some (← exprOf e)))
  | .list [.atom "let", p, e] :: rest, acc => do blockOf rest (((← patOf p), (← exprOf e)) :: acc)
  | .list [.atom "do", e] :: rest, acc => do blockOf rest ((Pat.wild, (← exprOf e)) :: acc)
  | _, _ => throw "block item"
end

def memberOf : SExp → Except String MemberDef
  | .list [.atom k, .atom n, .list ps, b] => do
    if k != "fn" && k != "md" then throw "member kind"
    pure { name := n, isMethod := k == "md", params := (← ps.mapM atomOf), body := (← exprOf b) }
  | _ => throw "member"

def typeDefOf : SExp → Except String TypeDef
  | .list [.atom "none"] => pure .none
  | .list (.atom "struct" :: fs) => do pure (.struct (← fs.mapM atomOf))
  | .list (.atom "enum" :: vs) => do
    pure (.enum (← vs.mapM fun v => match v with
      | .list [.atom n, a] => do pure (n, (← natOf a))
      | _ => throw "variant"))
  | _ => throw "type definition"

structure Loaded where
  entry : String := ""
  classes : Std.HashMap String ClassDef := {}
  nClasses : Nat := 0
  nIfaces : Nat := 0

def load (forms : List SExp) : Except String Loaded := do
  let mut r : Loaded := {}
  for f in forms do
    match f with
    | .list [.atom "entry", .atom m] => r := { r with entry := m }
    | .list (.atom "iface" :: _) => r := { r with nIfaces := r.nIfaces + 1 }
    | .list (.atom "class" :: .atom n :: td :: ms) =>
      let c : ClassDef := { name := n, td := (← typeDefOf td), members := (← ms.mapM memberOf) }
      r := { r with classes := r.classes.insert n c, nClasses := r.nClasses + 1 }
    | _ => throw "toplevel"
  pure r

def hexOfString (s : String) : String := hexOfBytes s.toUTF8.toList

def showFlags (f : Flags) : String :=
  let xs := (if f.ovf then ["ovf"] else []) ++ (if f.refeq then ["refeq"] else []) ++
    (if f.negdiv then ["negdiv"] else []) ++ (if f.vec31 then ["vec31"] else []) ++
    (if f.cap then ["cap"] else []) ++ (if f.toint then ["toint"] else [])
  if xs.isEmpty then "-" else ",".intercalate xs

def showOutcome (o : Outcome) : String :=
  let e := match o.end with
    | .ok => "ok"
    | .panic m => "panic:" ++ hexOfString m
    | .trap k => "trap:" ++ k
    | .oof => "oof"
  " ".intercalate ([e, showFlags o.flags, toString o.lines.length] ++ o.lines.map hexOfString)

def answer (fuel : Nat) (line : String) : String :=
  let toks := tokenize line
  let (forms, _) := parseSeq toks 0 #[]
  match load forms.toList with
  | .error e => "bad-dump:" ++ e
  | .ok l =>
    let P : Program := { classOf := fun c => l.classes[c]? }
    showOutcome (run P l.entry fuel)

end Driver.SRC

def main (args : List String) : IO Unit := do
  let fuel := (args.head?.bind String.toNat?).getD 100000000
  Driver.runLoop () fun _ line => ((), Driver.SRC.answer fuel line)
