import SamVerif.Model.Doc
import SamVerif.Model.CommentQueue
import SamVerif.Model.Imports
import SamVerif.Model.Attach
import SamVerif.Model.ExprDoc
import SamVerif.Model.CommentText
import Driver.Util
/-! Protocols of C09 (model side): `layout`, `expand`, `flatten`, `layoutdoc`, `agree`, `queue`,
`prepend`, `echo`. Same line formats as `harness/src/bin/c09.rs`. -/
namespace Driver.C09
open SamVerif.Doc Driver

def strOfHex (s : String) : Str :=
  (String.fromUTF8! (ByteArray.mk (bytesOfHex s).toArray)).toList

def hexOfStr (s : Str) : String := hexOfBytes (String.ofList s).toUTF8.toList

/-- Prefix-notation reader (see the hook `samlang_printer::verif_hooks`). -/
partial def parseDoc : List String → Option (Doc × List String)
  | "N" :: r => some (.nil, r)
  | "T" :: h :: r => some (.text (strOfHex h), r)
  | "S" :: h :: r => some (.nstext (strOfHex h), r)
  | "L" :: r => some (.line, r)
  | "LN" :: r => some (.lineNil, r)
  | "LH" :: r => some (.lineHard, r)
  | "C" :: r => do
    let (a, r) ← parseDoc r
    let (b, r) ← parseDoc r
    pure (.concat a b, r)
  | "I" :: n :: r => do
    let (a, r) ← parseDoc r
    pure (.nest n.toNat! a, r)
  | "U" :: r => do
    let (a, r) ← parseDoc r
    let (b, r) ← parseDoc r
    pure (.union a b, r)
  | "G" :: r => do
    let (a, r) ← parseDoc r
    pure (group a, r)
  | "BF" :: l :: r => do
    let (sep, r) ← parseDoc r
    let (d, r) ← parseDoc r
    match r with
    | rt :: r => pure (bracketFlexible (strOfHex l) sep d (strOfHex rt), r)
    | [] => none
  | "LC" :: h :: r => some (lineComment (strOfHex h), r)
  | "MC" :: s :: h :: r => some (multilineComment (strOfHex s) (strOfHex h), r)
  | "CV" :: n :: r => do
    let rec go (k : Nat) (acc : List Doc) (r : List String) : Option (List Doc × List String) :=
      match k with
      | 0 => some (acc.reverse, r)
      | k + 1 => do
        let (a, r) ← parseDoc r
        go k (a :: acc) r
    let (ds, r) ← go n.toNat! [] r
    pure (concatV ds, r)
  | _ => none

partial def dumpDoc : Doc → List String → List String
  | .nil, acc => "N" :: acc
  | .concat a b, acc => "C" :: dumpDoc a (dumpDoc b acc)
  | .nest n d, acc => "I" :: toString n :: dumpDoc d acc
  | .text s, acc => "T" :: hexOfStr s :: acc
  | .nstext s, acc => "S" :: hexOfStr s :: acc
  | .line, acc => "L" :: acc
  | .lineNil, acc => "LN" :: acc
  | .lineHard, acc => "LH" :: acc
  | .union a b, acc => "U" :: dumpDoc a (dumpDoc b acc)

def showDoc (d : Doc) : String := " ".intercalate (dumpDoc d [])

def readDoc (ws : List String) : Option Doc :=
  match parseDoc ws with
  | some (d, []) => some d
  | _ => none

open SamVerif.CommentQueue in
def kindOf (s : String) : Kind := if s == "line" then .line else if s == "doc" then .doc else .block
open SamVerif.CommentQueue in
def kindName : Kind → String | .line => "line" | .block => "block" | .doc => "doc"

open SamVerif.CommentQueue in
def showComments (cs : List Comment) : String :=
  ",".intercalate (cs.map fun c => kindName c.kind ++ "=" ++ hexOfStr c.text)

open SamVerif.CommentQueue in
/-- stream item: `kind=hex` with kind in line/block/doc (comment) or `t=hex` (token). -/
def readStream (s : String) : List RawTok :=
  if s == "-" then [] else
  (s.splitOn ",").map fun item =>
    match item.splitOn "=" with
    | [k, h] => if k == "t" then .tok (strOfHex h) else .comment ⟨kindOf k, strOfHex h⟩
    | _ => .tok []

open SamVerif.CommentQueue in
def readList (s : String) : List Comment :=
  if s == "-" then [] else
  (s.splitOn ",").map fun h => ⟨.block, if h == "e" then [] else strOfHex h⟩

open SamVerif.CommentQueue SamVerif.Imports in
/-- `path;kind=hex,..|-;member,..|-` joined by `/` (or `-` for no imports); member = `hexname` or
`hexname@kind=hex&kind=hex` (comments stored on the member). -/
def readImports (s : String) : List Import :=
  if s == "-" then [] else
  (s.splitOn "/").map fun item =>
    match item.splitOn ";" with
    | [p, cs, ms] =>
      { path := strOfHex p,
        comments := if cs == "-" then [] else (cs.splitOn ",").map fun c =>
          match c.splitOn "=" with
          | [k, h] => ⟨kindOf k, strOfHex h⟩
          | _ => ⟨.block, []⟩,
        members := if ms == "-" then [] else (ms.splitOn ",").map fun m =>
          match m.splitOn "@" with
          | [n, cs] => { name := strOfHex n, comments := (cs.splitOn "&").map fun c =>
              match c.splitOn "=" with
              | [k, h] => ⟨kindOf k, strOfHex h⟩
              | _ => ⟨.block, []⟩ }
          | _ => { name := strOfHex m, comments := [] } }
    | _ => { path := [], comments := [], members := [] }

open SamVerif.CommentQueue SamVerif.Attach in
def readCs (s : String) : List Comment :=
  if s == "-" then [] else (s.splitOn ",").map fun t => ⟨.block, t.toList⟩

open SamVerif.CommentQueue SamVerif.Attach in
def showCs (cs : List Comment) : String :=
  if cs.isEmpty then "-" else ",".intercalate (cs.map fun c => String.ofList c.text)

open SamVerif.Attach in
/-- skeleton reader: `leaf cs` | `post cs e` | `bin cs l ocs r`. -/
partial def parseCE : List String → Option (CE × List String)
  | "leaf" :: cs :: r => some (.leaf (readCs cs) 0, r)
  | "post" :: cs :: r => do
    let (e, r) ← parseCE r
    pure (.post (readCs cs) e 0, r)
  | "bin" :: cs :: r => do
    let (l, r) ← parseCE r
    match r with
    | ocs :: r => do
      let (rr, r) ← parseCE r
      pure (.bin (readCs cs) l (readCs ocs) 0 rr, r)
    | [] => none
  | _ => none

open SamVerif.Attach in
partial def showCE : CE → String
  | .leaf cs _ => "leaf " ++ showCs cs
  | .post cs e _ => "post " ++ showCs cs ++ " " ++ showCE e
  | .bin cs l ocs _ r => "bin " ++ showCs cs ++ " " ++ showCE l ++ " " ++ showCs ocs ++ " " ++ showCE r

open SamVerif.CommentQueue in
def readKindCs (s : String) : List Comment :=
  if s == "-" then [] else (s.splitOn ",").map fun c =>
    match c.splitOn "=" with
    | [k, h] => ⟨kindOf k, strOfHex h⟩
    | _ => ⟨.block, []⟩

open SamVerif.ExprDoc in
def binOpOf (s : String) : Option BinOp :=
  [BinOp.mul, .div, .mod, .plus, .minus, .concat, .lt, .le, .gt, .ge, .eq, .ne, .and, .or].find?
    (fun o => String.ofList (opStr o) == s)

open SamVerif.ExprDoc in
/-- `A cs hexname` | `U cs hexop e` | `B cs hexop ocs l r`. -/
partial def parseAExpr : List String → Option (AExpr × List String)
  | "A" :: cs :: n :: r => some (.atom (readKindCs cs) (strOfHex n), r)
  | "U" :: cs :: o :: r => do
    let (e, r) ← parseAExpr r
    let u ← (if String.ofList (strOfHex o) == "!" then some UOp.not
             else if String.ofList (strOfHex o) == "-" then some UOp.neg else none)
    pure (.unary (readKindCs cs) u e, r)
  | "B" :: cs :: o :: ocs :: r => do
    let op ← binOpOf (String.ofList (strOfHex o))
    let (l, r) ← parseAExpr r
    let (rr, r) ← parseAExpr r
    pure (.binary (readKindCs cs) op (readKindCs ocs) l rr, r)
  | "F" :: cs :: r => do
    let (obj, r) ← parseAExpr r
    match r with
    | ncs :: n :: r => pure (.field (readKindCs cs) obj (readKindCs ncs) (strOfHex n), r)
    | _ => none
  | "K" :: cs :: r => do
    let (callee, r) ← parseAExpr r
    match r with
    | scs :: n :: r =>
      let rec go (k : Nat) (acc : List AExpr) (r : List String) : Option (List AExpr × List String) :=
        match k with
        | 0 => some (acc.reverse, r)
        | k + 1 => do
          let (a, r) ← parseAExpr r
          go k (a :: acc) r
      let (args, r) ← go n.toNat! [] r
      match r with
      | ecs :: r =>
        pure (.call (readKindCs cs) callee (readKindCs scs) (args.foldr .argsCons .argsNil) (readKindCs ecs), r)
      | [] => none
    | _ => none
  | _ => none

open SamVerif.CommentQueue SamVerif.Imports SamVerif.Attach in
def step (_ : Unit) (line : String) : Unit × String :=
  let ws := words line
  ((), match ws with
  | "layout" :: w :: rest =>
    match readDoc rest with
    | some d => "s:" ++ hexOfStr (prettyPrint w.toNat! d)
    | none => "bad-doc"
  | "layoutdoc" :: w :: rest =>
    match readDoc rest with
    | some d => "ok " ++ hexOfStr (prettyPrint w.toNat! d) ++ " " ++ showDoc d
    | none => "bad-doc"
  | "expand" :: rest =>
    match readDoc rest with
    | some d => "d:" ++ showDoc d
    | none => "bad-doc"
  | "flatten" :: rest =>
    match readDoc rest with
    | some d => match flatten d with
      | some f => "d:" ++ showDoc f
      | none => "none"
    | none => "bad-doc"
  | "agree" :: rest =>
    match readDoc rest with
    | some d =>
      let b (x : Bool) := if x then "1" else "0"
      s!"agree text={b (agreeB textKey d)} comment={b (agreeB commentKey d)} ns={b (agreeB nsKey d)} size={size d}"
    | none => "bad-doc"
  | ["queue", stream, ops] =>
    let st0 := init (readStream stream)
    let (st, parts) := ops.toList.foldl (fun (acc : State × List String) c =>
      if c == 'c' then
        let (st', cs) := consume acc.1
        (st', ("c:" ++ showComments cs) :: acc.2)
      else
        let (st', t) := peek acc.1
        (st', ("p:" ++ (match t with | .tok s => hexOfStr s | .eof => hexOfStr "EOF".toList)) :: acc.2))
      (st0, [])
    ";".intercalate (parts.reverse ++ ["|" ++ showComments st.pending])
  | ["queue", stream] =>
    let st0 := init (readStream stream)
    "|" ++ showComments st0.pending
  | "prepend" :: target :: extra :: groups =>
    let t := target.toNat!
    if t ≥ groups.length then "skip" else
    let (store, refs) := groups.foldl (fun (acc : Store × List Nat) g =>
      let (s, r) := createRef acc.1 (readList g); (s, acc.2 ++ [r])) (emptyStore, [])
    match prepend store (refs[t]!) (readList extra) with
    | none => "panic"
    | some (s, r) =>
      let texts := (get s r).getD []
      let shown := if texts.isEmpty then "-" else ",".intercalate (texts.map fun c => hexOfStr c.text)
      s!"r:{shown} n:{s.length}"
  | ["importsdoc", shape, dump] =>
    let imps := readImports dump
    if shape == "only" then s!"ok only {dump} | {showDoc (importsOnlyDoc imps)}"
    else
      -- the module continues after the imports: `C <import doc> C <import doc> .. C LH` is a prefix
      let parts := (sortedGroups imps).map fun g => "C " ++ showDoc (importDoc g)
      s!"ok more {dump} | {" ".intercalate (parts ++ (if imps.isEmpty then [] else ["C LH"]))}"
  | "exprdocm" :: w :: tree =>
    match parseAExpr tree with
    | some (e, []) =>
      let d := SamVerif.ExprDoc.docOf e
      "ok " ++ hexOfStr (prettyPrint w.toNat! d) ++ " " ++ " ".intercalate tree ++ " | " ++ showDoc d
    | _ => "bad-tree"
  | "attachm" :: extra :: skel =>
    match parseCE skel with
    | some (e, []) => showCE e ++ " | " ++ showCE (attachLeft (readCs extra) e)
    | _ => "bad-skeleton"
  | "parenm" :: start :: stop :: skel =>
    match parseCE skel with
    | some (e, []) => showCE e ++ " | " ++ showCE (wrapLeft (readCs start) (readCs stop) e)
    | _ => "bad-skeleton"
  | ["listm", endTok, stream] =>
    let raw := readStream stream
    let (st, elems, ecs) := parseList (strOfHex endTok) (raw.length + 1) (init raw) [] []
    let showPlain (cs : List Comment) := if cs.isEmpty then "-" else ",".intercalate (cs.map fun c => String.ofList c.text)
    let es := elems.map fun (n, cs) => String.ofList n ++ "=" ++ showPlain cs
    (if es.isEmpty then "-" else ";".intercalate es) ++ "|" ++ showPlain ecs ++ "|" ++ showPlain st.pending
  | ["ctext", body] => "t:" ++ hexOfStr (SamVerif.CommentText.postProcess (strOfHex body))
  | "echo" :: rest => " ".intercalate rest
  | _ => "bad-op")

def run : IO Unit := runLoop () step

end Driver.C09

def main (_args : List String) : IO UInt32 := do
  Driver.C09.run
  return 0
