import SamVerif.Model.Differ
import SamVerif.Model.DifferText
import Driver.Util
/-! Protocol `diff` (C16): `diff <old> <new>` on comma-separated integer lists (`-` = empty) through
`SamVerif.Differ.diff`; answers in the format of `harness/src/bin/c16.rs`. Other (server) lines of
the C16 protocol are implementation-only and never sent to this driver. -/
namespace Driver.C16
open SamVerif.Differ Driver

def parseList (s : String) : List Int :=
  if s == "-" then [] else (s.splitOn ",").map String.toInt!

def joinInts (xs : List Int) : String := ",".intercalate (xs.map toString)

def showChange : Int × Change Int → String
  | (p, .insert items ld) => s!"I@{p}[{joinInts items}]s0l{if ld then 1 else 0}"
  | (p, .delete a) => s!"D@{p}[{a}]"
  | (p, .replace a b) => s!"R@{p}[{a}>{b}]"

def showScript (s : Script Int) : String :=
  if s.isEmpty then "-" else ";".intercalate (s.map showChange)

def parsePos (s : String) : Pos :=
  match s.splitOn ":" with
  | [l, c] => (l.toNat!, c.toNat!)
  | _ => (0, 0)

def parseLocs (s : String) : List (Pos × Pos) :=
  if s == "-" then [] else (s.splitOn ";").map fun r =>
    match r.splitOn "-" with
    | [a, b] => (parsePos a, parsePos b)
    | _ => ((0, 0), (0, 0))

def parseTable (s : String) : List (Int × Text) :=
  if s == "-" then [] else (s.splitOn ",").filterMap fun e =>
    match e.splitOn "=" with
    | [k, v] => some (k.toInt!, bytesOfHex v)
    | _ => none

def rndOf (t : List (Int × Text)) (a : Int) : Text := ((t.find? (·.1 == a)).map (·.2)).getD []

def showEdits (eds : List TextEdit) : String :=
  if eds.isEmpty then "-" else ",".intercalate (eds.map fun e =>
    s!"{e.start.1}:{e.start.2}-{e.stop.1}:{e.stop.2}={hexOfBytes e.text}")

def step (_ : Unit) (line : String) : Unit × String :=
  match words line with
  | ["diff", a, b] =>
    let old := parseList a
    let new := parseList b
    match diff old new with
    | some s =>
      -- the script applied to `old` must give `new` (theorem `diff_correct`; re-checked here so a
      -- model change that breaks it is visible in the correspondence run as well)
      if applyScript old s == new then ((), showScript s) else ((), "model-apply-mismatch " ++ showScript s)
    | none => ((), "out-of-fuel")
  | ["trace", a, b] =>
    match longestTrace (defaultFuel (parseList a) (parseList b)) (parseList a) (parseList b) with
    | some tr => ((), if tr.isEmpty then "-" else ",".intercalate (tr.map fun p => s!"{p.1}:{p.2}"))
    | none => ((), "out-of-fuel")
  -- text level: `iedits <locs> <old> <new> <id=hex,...>` = importEdits of the diff; answer in the
  -- format of the harness' `mdiff`
  | ["iedits", l, a, b, r] =>
    let old := parseList a
    let new := parseList b
    match diff old new with
    | some s => ((), showEdits (importEdits (parseLocs l) (rndOf (parseTable r)) s))
    | none => ((), "out-of-fuel")
  -- `aimp <locs> <old> <x> <id=hex>` = autoImportEdits
  | ["aimp", l, a, x, r] =>
    match autoImportEdits (parseLocs l) (rndOf (parseTable r)) (parseList a) x.toInt! with
    | some eds => ((), showEdits eds)
    | none => ((), "out-of-fuel")
  -- `medits <locsI> <oldI> <newI> <tableI> <locsT> <oldT> <newT> <tableT>` = moduleEdits
  | ["medits", li, ai, bi, ri, lt, at_, bt, rt] =>
    match diff (parseList ai) (parseList bi), diff (parseList at_) (parseList bt) with
    | some sI, some sT =>
      ((), showEdits (moduleEdits (parseLocs li) (parseLocs lt) (rndOf (parseTable ri)) (rndOf (parseTable rt)) sI sT))
    | _, _ => ((), "out-of-fuel")
  -- `mfull <hex of the printed new module>` = moduleDiffEdits with different comment stores
  | ["mfull", h] =>
    ((), showEdits (moduleDiffEdits (α := Int) (β := Int) false (bytesOfHex h) [] [] (fun _ => []) (fun _ => []) [] []))
  -- `cadec <covers 0/1> <lookup module> <doc module> <bits: module declares the name>`: offered per module
  | ["cadec", cov, lookup, docm, bits] =>
    ((), String.ofList (bits.toList.map fun b =>
      if codeActionOffered (cov == "1") lookup docm (b == '1') then '1' else '0'))
  -- `cdec <available names> <root 0/1> <names>`: which completion items carry the auto-import edit
  | ["cdec", av, root, ns] =>
    let avail := if av == "-" then [] else av.splitOn ","
    let names := if ns == "-" then [] else ns.splitOn ","
    ((), String.ofList (names.map fun n =>
      match completionAdditionalEdits (α := Int) [] (fun _ => [65]) [] avail (root == "1") n 0 with
      | some [] => '0'
      | _ => '1'))
  | _ => ((), "bad-op")

end Driver.C16

def main (_args : List String) : IO UInt32 := do
  Driver.runLoop () Driver.C16.step
  return 0
