import SamVerif.Model.Fmt
import Driver.Util
/-! Legacy (round-2) model side of protocol `fmt-expr`: `Model/Fmt.lean`, still used by C09b / C13b.
The main driver (`Driver/C08.lean`) runs it next to the full model and reports any difference.
(original header follows) Protocol `fmt-expr` (C08), model side.
`E <width> <hex text>`: lex the fragment text (driver-side character lexer + token grouping + the
model's `mergeMinInt`), `parseE` → T0, `printE` → token sequence, re-lex, `parseE` → T1, `RT T0`.
`S <width> <hex text>`: a single string-literal token through `parseStr` / `printStr`.
Answers: `<T0>;<tokens>;<T1|rerr>;rt=<0|1>` or `perr`. The width is irrelevant to the model (token level).

Opaque units of the model and the concrete shapes the driver recognises for them:
`post`   `. name`  |  `( w , … )` directly after something that ends an expression (call with atom arguments)
`atom`   identifiers, ints, `true`/`false`/`this`, `{ w }` (block)
`kwIf`   `if w { w } else { w }`          `kwMatch`  `match w { U ( w|_ ) -> w , … }`
`lam`    `( x , … ) ->`                                                      (w = a single word) -/
namespace Driver.C08Legacy
open SamVerif.Fmt Driver

def ops : List (String × BinOp) :=
  [("*", .mul), ("/", .div), ("%", .mod), ("+", .plus), ("-", .minus), ("::", .concat),
   ("<", .lt), ("<=", .le), (">", .gt), (">=", .ge), ("==", .eq), ("!=", .ne), ("&&", .and), ("||", .or)]

def opText (o : BinOp) : String := ((ops.find? (·.2 == o)).map (·.1)).getD "?"
def opOf (s : String) : Option BinOp := (ops.find? (·.1 == s)).map (·.2)

def isIdStart (c : Char) : Bool := c.isAlpha
def isIdChar (c : Char) : Bool := c.isAlphanum

/-- character-level lexer of the fragment (not part of the proved model). -/
partial def lexWords : List Char → List String → Option (List String)
  | [], acc => some acc.reverse
  | c :: rest, acc =>
    if c == ' ' || c == '\n' || c == '\t' then lexWords rest acc
    else if c == '-' && rest.head? == some '>' then lexWords (rest.drop 1) ("->" :: acc)
    else if c == '(' || c == ')' || c == '+' || c == '*' || c == '/' || c == '%' || c == '-'
        || c == '{' || c == '}' || c == ',' || c == '.' || c == '_' then
      lexWords rest (c.toString :: acc)
    else if c.isDigit then
      let ds := (c :: rest).takeWhile Char.isDigit
      lexWords ((c :: rest).dropWhile Char.isDigit) (String.ofList ds :: acc)
    else if isIdStart c then
      let ds := (c :: rest).takeWhile isIdChar
      lexWords ((c :: rest).dropWhile isIdChar) (String.ofList ds :: acc)
    else match c, rest with
      | '!', '=' :: r => lexWords r ("!=" :: acc)
      | '!', r => lexWords r ("!" :: acc)
      | '<', '=' :: r => lexWords r ("<=" :: acc)
      | '<', r => lexWords r ("<" :: acc)
      | '>', '=' :: r => lexWords r (">=" :: acc)
      | '>', r => lexWords r (">" :: acc)
      | '=', '=' :: r => lexWords r ("==" :: acc)
      | '&', '&' :: r => lexWords r ("&&" :: acc)
      | '|', '|' :: r => lexWords r ("||" :: acc)
      | ':', ':' :: r => lexWords r ("::" :: acc)
      | _, _ => none

def isNum (s : String) : Bool := !s.isEmpty && s.toList.all Char.isDigit
def isWordAtom (s : String) : Bool :=
  !s.isEmpty && (s.toList.head!.isAlphanum || s.startsWith "-2") && s != "if" && s != "match" && s != "else"
def isLowerId (s : String) : Bool := !s.isEmpty && s.toList.head!.isLower && s.toList.all Char.isAlphanum
def isUpperId (s : String) : Bool := !s.isEmpty && s.toList.head!.isUpper

/-- `- 2147483648` → one word, through the model's `mergeMinInt`. -/
def mergeWords (words : List String) : List String :=
  let raw : List RawTok := words.zipIdx.map fun (w, i) =>
    if w == "-" then .minus else if isNum w then .int w.toNat! else .other i
  (mergeMinInt raw).map fun
    | .minus => "-"
    | .int n => toString n
    | .minInt => "-2147483648"
    | .other k => words.getD k "?"

/-- one entry per opaque unit: how it is printed and how the harness dumps it. -/
structure Entry where
  text : String
  pre : String
  suf : String
  deriving BEq

abbrev Tab := List Entry

def intern (tab : Tab) (e : Entry) : Tab × Nat :=
  match tab.idxOf? e with
  | some i => (tab, i)
  | none => (tab ++ [e], tab.length)

/-- `x , y , z )` → the words before the closing parenthesis, if they are single words separated by commas. -/
def commaList (ok : String → Bool) : List String → Option (List String × List String)
  | ")" :: rest => some ([], rest)
  | w :: ")" :: rest => if ok w then some ([w], rest) else none
  | w :: "," :: rest =>
    if ok w then (commaList ok rest).bind fun (ws, r) => if ws.isEmpty then none else some (w :: ws, r) else none
  | _ => none

/-- `U ( w|_ ) -> w ,` cases of a match, up to the closing brace. -/
partial def matchCases : List String → Option (List (String × String) × List String)
  | "}" :: rest => some ([], rest)
  | u :: "(" :: v :: ")" :: "->" :: b :: rest =>
    if isUpperId u && (isLowerId v || v == "_") && isWordAtom b then
      let pat := if v == "_" then "_" else s!"(pid {v})"
      let one := (s!"{u} ( {v} ) -> {b} ,", s!"(case (pvariant {u} (ptuple {pat})) {b})")
      let rest' := match rest with | "," :: r => r | r => r
      (matchCases rest').map fun (cs, r) => (one :: cs, r)
    else none
  | _ => none

def endsExpr : Option Tok → Bool
  | some (.atom _) | some .rp | some (.post _ _) => true
  | _ => false

/-- words → model tokens. -/
partial def group : List String → List Tok → Tab → Option (List Tok × Tab)
  | [], acc, tab => some (acc, tab)
  | w :: rest, acc, tab =>
    let push (t : Tok) (r : List String) (tb : Tab) := group r (acc ++ [t]) tb
    if w == "if" then
      match rest with
      | c :: "{" :: x :: "}" :: "else" :: "{" :: y :: "}" :: r =>
        if isWordAtom c && isWordAtom x && isWordAtom y then
          let (tb, i) := intern tab ⟨s!"if {c} \{ {x} } else \{ {y} }", s!"(if {c} (block (final {x})) (block (final {y})))", ""⟩
          push (.kwIf i) r tb
        else none
      | _ => none
    else if w == "match" then
      match rest with
      | m :: "{" :: r =>
        if !isWordAtom m then none else
        match matchCases r with
        | some (cs, r') =>
          if cs.isEmpty then none else
          let (tb, i) := intern tab ⟨s!"match {m} \{ " ++ " ".intercalate (cs.map (·.1)) ++ " }",
            s!"(match {m} " ++ " ".intercalate (cs.map (·.2)) ++ ")", ""⟩
          push (.kwMatch i) r' tb
        | none => none
      | _ => none
    else if w == "(" then
      -- lambda?
      match commaList isLowerId rest with
      | some (ps, "->" :: r) =>
        let (tb, i) := intern tab ⟨"( " ++ " , ".intercalate ps ++ (if ps.isEmpty then ") ->" else " ) ->"),
          "(lambda (params" ++ String.join (ps.map fun p => s!" ({p})") ++ ") ", ")"⟩
        push (.lam i) r tb
      | _ =>
        if endsExpr acc.getLast? then
          match commaList isWordAtom rest with
          | some (as, r) =>
            let (tb, i) := intern tab ⟨"( " ++ " , ".intercalate as ++ (if as.isEmpty then ")" else " )"),
              "(call ", String.join (as.map fun a => " " ++ a) ++ ")"⟩
            push (.post i false) r tb
          | none => none
        else push .lp rest tab
    else if w == "." then
      match rest with
      | n :: r =>
        if isWordAtom n && !isNum n then
          let (tb, i) := intern tab ⟨s!". {n}", "(. ", s!" {n})"⟩
          push (.post i true) r tb
        else none
      | _ => none
    else if w == "{" then
      match rest with
      | x :: "}" :: r =>
        if isWordAtom x then
          let (tb, i) := intern tab ⟨s!"\{ {x} }", s!"(block (final {x}))", ""⟩
          push (.atom i) r tb
        else none
      | _ => none
    else if w == ")" then push .rp rest tab
    else if w == "!" then push .bang rest tab
    else match opOf w with
      | some o => push (.op o) rest tab
      | none =>
        if isWordAtom w then
          let (tb, i) := intern tab ⟨w, w, ""⟩
          push (.atom i) rest tb
        else none

def tokText (tab : Tab) : Tok → String
  | .lp => "(" | .rp => ")" | .bang => "!"
  | .op o => opText o
  | .atom a | .post a _ | .kwIf a | .kwMatch a | .lam a => ((tab[a]?).map (·.text)).getD "?"

def ent (tab : Tab) (i : Nat) : Entry := (tab[i]?).getD ⟨"?", "?", "?"⟩

partial def dump (tab : Tab) : Expr → String
  | .atom a => (ent tab a).pre
  | .ifElse k => (ent tab k).pre
  | .matchE k => (ent tab k).pre
  | .post e p _ => (ent tab p).pre ++ dump tab e ++ (ent tab p).suf
  | .lambda k b => (ent tab k).pre ++ dump tab b ++ (ent tab k).suf
  | .unary .not e => "(! " ++ dump tab e ++ ")"
  | .unary .neg e => "(neg " ++ dump tab e ++ ")"
  | .binary o l r => "(" ++ opText o ++ " " ++ dump tab l ++ " " ++ dump tab r ++ ")"

def textOfHex (h : String) : String := (String.fromUTF8? (ByteArray.mk (bytesOfHex h).toArray)).getD ""

def lexAll (text : String) : Option (List Tok × Tab) :=
  (lexWords text.toList []).bind fun ws => group (mergeWords ws) [] []

def stepE (text : String) : String :=
  match lexAll text with
  | none => "perr"
  | some (ts, tab) =>
    match parseE ts with
    | none => "perr"
    | some e =>
      let out := printE e
      let outText := " ".intercalate (out.map (tokText tab))
      -- re-lex the rendered text (so that `- 2147483648` is merged again) and re-parse
      let t1 := match lexAll outText with
        | none => "rerr"
        | some (ts2, tab2) =>
          match parseE ts2 with
          | none => "rerr"
          | some e2 => dump tab2 e2
      s!"{dump tab e};{outText};{t1};rt={if RT e then 1 else 0}"

end Driver.C08Legacy

