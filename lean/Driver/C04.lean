import SamVerif.Model.Backends
import Driver.Util
/-! Protocol `backends` (C04): one micro-operation per line, answered by both back-end models.
A leading `!` (the harness' "compile this line as its own program" flag) is ignored here. -/
namespace Driver.C04
open SamVerif.Backends Driver

def opOfName (s : String) : Option Op := Op.all.find? (fun o => o.name == s)

def showJs : JsVal → String
  | .int n => s!"i:{n}"
  | .frac _ _ => "frac"
  | .nan => "nan"
  | .inf neg => if neg then "-inf" else "inf"
  | .bool b => if b then "b:true" else "b:false"

def showW : Option Int → String
  | some n => s!"i:{n}"
  | none => "trap"

def hex4 (n : Nat) : String :=
  String.ofList [hexDigit (n / 4096 % 16), hexDigit (n / 256 % 16), hexDigit (n / 16 % 16), hexDigit (n % 16)]

def showUnits (l : List Nat) : String := if l.isEmpty then "u:-" else "u:" ++ String.join (l.map hex4)

/-- code points of the UTF-8 text given in hex -/
def textOfHex (h : String) : Option (List Nat) :=
  let bytes := bytesOfHex h
  match String.fromUTF8? (ByteArray.mk bytes.toArray) with
  | some s => some (s.toList.map Char.toNat)
  | none => none

/-- `kind` = "P" (JS `Error` thrown: panic) for the TypeScript runtime, "T" (engine trap) for wasm -/
def showRes (kind : String) : VRes → String
  | .unit => "u"
  | .val n => s!"v{n}"
  | .fail m => kind ++ hexOfBytes m.toUTF8.toList

def parseVOp (t : String) : Option VOp :=
  match t.splitOn ":" with
  | ["push", v] => v.toInt?.map .push
  | ["pop"] => some .pop
  | ["get", i] => i.toInt?.map .get
  | ["set", i, v] => match i.toInt?, v.toInt? with
    | some i, some v => some (.set i v)
    | _, _ => none
  | ["len"] => some .len
  | _ => none

def step (_ : Unit) (line : String) : Unit × String :=
  let line := if line.startsWith "!" then (line.drop 1).toString else line
  ((), match words line with
  | ["bin", o, a, b] =>
    match opOfName o, a.toInt?, b.toInt? with
    | some op, some a, some b => s!"{showJs (tsBin op a b)} {showW (wasmBin op a b)}"
    | _, _, _ => "bad-op"
  | ["str", h] =>
    match textOfHex h with
    | none => "bad-utf8"
    | some raw =>
      if lexAccepts raw then
        let c := content raw
        let t := match tsCook c with
          | some u => showUnits u
          | none => "syn"
        s!"{t} {showUnits (wasmDecode c)}"
      else "rej"
  | ["i2s", n] =>
    match n.toInt? with
    | some n => s!"{showUnits (tsFromInt n)} {showUnits (wasmFromInt n)}"
    | none => "bad-op"
  | ["s2i", h] =>
    match textOfHex h with
    | none => "bad-utf8"
    | some s =>
      let t := match tsToInt s with
        | some n => s!"i:{n}"
        | none => "nan"
      s!"{t} {showW (wasmToInt (s.flatMap utf8))}"
  | "vec" :: ops =>
    match ops.mapM parseVOp with
    | none => "bad-op"
    | some ops =>
      let t := tsVecRun [] ops
      let w := wasmVecRun WVec.empty ops
      s!"{",".intercalate (t.map (showRes "P"))} {",".intercalate (w.map (showRes "T"))}"
  | _ => "bad-op")

def run : IO Unit := runLoop () step

end Driver.C04

def main (_args : List String) : IO UInt32 := do
  Driver.C04.run
  return 0
