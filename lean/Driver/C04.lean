import SamVerif.Model.BackendsEnum
import SamVerif.Model.BackendsNames
import Driver.Util
/-! Protocol `backends` (C04): one micro-operation per line, answered by both back-end models.
A leading `!` (the harness' "compile this line as its own program" flag) is ignored here. -/
namespace Driver.C04
open SamVerif.Backends Driver

def opOfName (s : String) : Option Op := Op.all.find? (fun o => o.name == s)

def showJs : JsVal → String
  | .int n => s!"i:{n}"
  | .frac _ _ => "frac"
  | .nan => "nan"
  | .inf neg => if neg then "-inf" else "inf"
  | .bool b => if b then "b:true" else "b:false"

def showW : Option Int → String
  | some n => s!"i:{n}"
  | none => "trap"

def hex4 (n : Nat) : String :=
  String.ofList [hexDigit (n / 4096 % 16), hexDigit (n / 256 % 16), hexDigit (n / 16 % 16), hexDigit (n % 16)]

def showUnits (l : List Nat) : String := if l.isEmpty then "u:-" else "u:" ++ String.join (l.map hex4)

/-- code points of the UTF-8 text given in hex -/
def textOfHex (h : String) : Option (List Nat) :=
  let bytes := bytesOfHex h
  match String.fromUTF8? (ByteArray.mk bytes.toArray) with
  | some s => some (s.toList.map Char.toNat)
  | none => none

/-- `kind` = "P" (JS `Error` thrown: panic) for the TypeScript runtime, "T" (engine trap) for wasm -/
def showRes (kind : String) : VRes → String
  | .unit => "u"
  | .val n => s!"v{n}"
  | .fail m => kind ++ hexOfBytes m.toUTF8.toList

def parseVOp (t : String) : Option VOp :=
  match t.splitOn ":" with
  | ["push", v] => v.toInt?.map .push
  | ["pop"] => some .pop
  | ["get", i] => i.toInt?.map .get
  | ["set", i, v] => match i.toInt?, v.toInt? with
    | some i, some v => some (.set i v)
    | _, _ => none
  | ["len"] => some .len
  | ["res", n] => n.toInt?.map .reserve
  | _ => none

/-- a `vec` line: optional constructor `new:of:v` / `new:cap:n`, then calls; `cap` = capacity() -/
inductive Tok
  | op (o : VOp)
  | cap

def parseTok (t : String) : Option Tok :=
  if t == "cap" then some .cap else (parseVOp t).map .op

def tsToks : List Int → List Tok → List String
  | _, [] => []
  | t, .cap :: r => s!"v{tsCapacity t}" :: tsToks t r
  | t, .op o :: r =>
    match tsVecStep t o with
    | (_, .fail m) => [showRes "P" (.fail m)]
    | (t', x) => showRes "P" x :: tsToks t' r

def wasmToks : WVec → List Tok → List String
  | _, [] => []
  | w, .cap :: r => s!"v{wasmCapacity w}" :: wasmToks w r
  | w, .op o :: r =>
    match wasmVecStep i31wrap w o with
    | (_, .fail m) => [showRes (if m == "null" then "T" else "P") (.fail m)]
    | (w', x) => showRes "P" x :: wasmToks w' r

def parseElems (s : String) : Option (List Int) :=
  if s == "-" then some [] else (s.splitOn ",").mapM String.toInt?

def wasmOfList (l : List Int) : WVec := l.foldl (fun w v => (wasmVecStep i31wrap w (.push v)).1) WVec.empty

def asciiString (l : List Nat) : String := String.ofList (l.map Char.ofNat)

def step (_ : Unit) (line : String) : Unit × String :=
  let line := if line.startsWith "!" then (line.drop 1).toString else line
  ((), match words line with
  | ["bin", o, a, b] =>
    match opOfName o, a.toInt?, b.toInt? with
    | some op, some a, some b => s!"{showJs (tsBin op a b)} {showW (wasmBin op a b)}"
    | _, _, _ => "bad-op"
  | ["str", h] =>
    match textOfHex h with
    | none => "bad-utf8"
    | some raw =>
      if lexAccepts raw then
        let c := content raw
        let t := match tsDecode c with
          | some u => showUnits u
          | none => "syn"
        s!"{t} {showUnits (wasmDecode c)}"
      else "rej"
  | ["i2s", n] =>
    match n.toInt? with
    | some n => s!"{showUnits (tsFromInt n)} {showUnits (wasmFromInt n)}"
    | none => "bad-op"
  | ["s2i", h] =>
    match textOfHex h with
    | none => "bad-utf8"
    | some s =>
      let t := match tsToInt s with
        | some n => s!"i:{n}"
        | none => "nan"
      s!"{t} {showW (wasmToInt (s.flatMap utf8))}"
  | "vec" :: toks =>
    let (init, toks) : Option (List Int × WVec) × List String := match toks with
      | c :: r =>
        match c.splitOn ":" with
        | ["new", "of", v] => (v.toInt?.map fun v => (tsVecOf v, wasmVecOf i31wrap v), r)
        | ["new", "cap", n] => ((n.toInt?.bind wasmVecWithCapacity).map fun w => ([], w), r)
        | _ => (some ([], WVec.empty), toks)
      | [] => (some ([], WVec.empty), toks)
    match init, toks.mapM parseTok with
    | some (t0, w0), some ts =>
      s!"{",".intercalate (tsToks t0 ts)} {",".intercalate (wasmToks w0 ts)}"
    | _, _ => "bad-op"
  | ["tag", kind, arg] =>
    let v : Option (JsV × String) := match kind, arg.toInt? with
      | "none", _ => some (.num 1, "")
      | "other", _ => some (.num 3, "")
      | "box", some n => some (.arr 1 [.num n], toString n)
      | "vec", some n => some (.arr 1 [.num n], "1")
      | "vec", none => if arg == "-" then some (.arr 1 [], "0") else none
      | _, _ => none
    match v with
    | none => "bad-op"
    | some (v, payload) =>
      let name (k : Option Nat) : String := match k with
        | some 0 => "snone"
        | some 1 => "sother"
        | _ => "ssome " ++ payload
      let t := firstTag (fun x n => tsRefEq x (.num n)) v 0 2
      let w := firstTag (fun x n => wasmRefEq (repOf x) (.i31 n)) v 0 2
      -- a payload-free variant that is not recognised by a tag test would fall to the Some arm;
      -- cannot happen for `none`/`other` (numbers compare as numbers on both sides)
      (name t).replace " " "_" ++ " " ++ (name w).replace " " "_"
  | "vecr" :: toks =>
    -- reference elements: object k has identity k, nothing is boxed (`box = id`)
    match toks.mapM parseVOp with
    | none => "bad-op"
    | some ops =>
      let t := tsVecRun [] ops
      let w := wasmVecRun id WVec.empty ops
      s!"{",".intercalate (t.map (showRes "P"))} {",".intercalate (w.map (showRes "P"))}"
  | ["veqr", a, b] =>
    match parseElems a, parseElems b with
    | some a, some b =>
      let wOf (l : List Int) : WVec := l.foldl (fun w v => (wasmVecStep id w (.push v)).1) WVec.empty
      s!"v{tsVecEq false a b},v{tsVecEq false b a},v{tsVecEq true a a} v{wasmVecEq false (wOf a) (wOf b)},v{wasmVecEq false (wOf b) (wOf a)},v{wasmVecEq true (wOf a) (wOf a)}"
    | _, _ => "bad-op"
  | ["enum", shape, idx, a, b] =>
    -- enum shapes of the harness: (variant name, field types: true = pointer-only type (Box))
    let shapes : List (List (String × List Bool)) :=
      [[("A", []), ("B", []), ("C", [true])],
       [("A", []), ("B", [false]), ("C", [false, false]), ("D", [])],
       [("P", [false]), ("Q", [false, false])],
       [("A", []), ("B", [true]), ("C", [true])],
       [("P", [true])]]
    match shape.toNat?, idx.toNat?, a.toInt?, b.toInt? with
    | some sh, some k, some a, some b =>
      match shapes[sh - 1]? with
      | none => "bad-op"
      | some vs =>
        match vs[k]? with
        | none => "bad-op"
        | some (_, tys) =>
          let L := layout (vs.map (·.2))
          let args : List Int := [a, b].take tys.length
          let fields : List JsV := (args.zip tys).map fun (x, isBox) => if isBox then .arr 9 [.num x] else .num x
          let v : EVal := match L[k]? with
            | some .int31 => .tag k
            | some .unboxed => .payload k 7 [.num a]
            | _ => .box k 7 fields
          let order := List.range vs.length
          let showArm (o : Option Nat) : String := match o with
            | none => "nomatch"
            | some j => match vs[j]? with
              | none => "?"
              | some (name, tys) => "_".intercalate (name :: (([a, b].take tys.length).map toString))
          let run (ord : List Nat) (test : Nat → Bool) : String := showArm (firstArm test ord)
          let tsT := fun j => tsTest L j (tsRep v)
          let wT := fun j => (wasmTest L j (wasmRepE v)).getD false
          s!"s{run order tsT}|{run order.reverse tsT} s{run order wT}|{run order.reverse wT}"
    | _, _, _, _ => "bad-op"
  | ["resv", h] =>
    -- a samlang identifier (not a keyword) compiles and, whatever JavaScript thinks of the word, the
    -- program prints the same six lines on both back ends (the TypeScript printer mangles the
    -- reserved ones: `reserved_covered`)
    if isSamIdent (bytesOfHex h) then "s11|<<5>>|10|7_6_10|6|36_16 s11|<<5>>|10|7_6_10|6|36_16" else "rej"
  | ["cov", name] =>
    -- expected output of the deterministic whole programs (hand-evaluated by the language's rules)
    let table : List (String × String) := [("vecopt", "none|some_1|some_3|none|1"), ("ifempty", "else|then|done"), ("unitloop", "3|2|1|done"), ("closures", "8|15|6"), ("refne", "TF_FT_FT|TF_FT_TF"), ("nostr", "55")]
    match table.find? (·.1 == name) with
    | some (_, e) => s!"s{e} s{e}"
    | none => "bad-op"
  | ["streq", ha, hb] =>
    -- strings are their UTF-8 bytes; two equal constants are one shared object (`same`)
    let a := (bytesOfHex ha).map UInt8.toNat
    let b := (bytesOfHex hb).map UInt8.toNat
    let tf (eq : Int) : String := if eq == 1 then "TF" else "FT"
    let ts := tf (tsStrEq a b)
    let tsSelf := tf (tsStrEq a a)
    let w (same : Bool) (x y : List Nat) := tf (wasmStrEq same x y)
    s!"s{ts}_{ts}_{ts}_{ts}_{tsSelf} s{w (decide (a = b)) a b}_{w false a b}_{w false a b}_{w false a b}_{w true a a}"
  | ["veq", a, b] =>
    match parseElems a, parseElems b with
    | some a, some b =>
      let wa := wasmOfList a
      let wb := wasmOfList b
      s!"v{tsVecEq false a b},v{tsVecEq false b a},v{tsVecEq true a a} v{wasmVecEq false wa wb},v{wasmVecEq false wb wa},v{wasmVecEq true wa wa}"
    | _, _ => "bad-op"
  | ["seq", ha, na, hb, nb] =>
    match textOfHex ha, na.toInt?, textOfHex hb, nb.toInt? with
    | some a, some na, some b, some nb =>
      let ta := tsStrConcat a (tsFromInt na)
      let tb := tsStrConcat b (tsFromInt nb)
      let wa := wasmStrConcat a (wasmFromInt na)
      let wb := wasmStrConcat b (wasmFromInt nb)
      s!"v{tsStrEq ta tb},v{1 - tsStrEq ta tb},s{asciiString (tsStrConcat ta tb)} v{wasmStrEq false wa wb},v{1 - wasmStrEq false wa wb},s{asciiString (wasmStrConcat wa wb)}"
    | _, _, _, _ => "bad-op"
  | _ => "bad-op")

def run : IO Unit := runLoop () step

end Driver.C04

def main (_args : List String) : IO UInt32 := do
  Driver.C04.run
  return 0
