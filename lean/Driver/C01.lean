import SamVerif.Model.EnumLayout
import SamVerif.Model.TailRec
import SamVerif.Model.CpeSem
import SamVerif.Model.TailStmt
import SamVerif.Model.CpeProg
import SamVerif.Model.VecRt
import SamVerif.Model.DataSeg
import SamVerif.Model.Launcher
import Driver.Util
/-! Line-protocol driver for property C01 (model side): protocols `layout`, `tailrec`, `cpe`.
Each line carries, after `##`, the model-side description of the same input that the harness
(harness/src/bin/c01.rs) receives in front of it. -/
namespace Driver.C01
open Driver SamVerif

/-! ### token reader -/
abbrev P := StateT (List String) Option

def tok : P String := fun ts => match ts with
  | [] => none
  | t :: rest => some (t, rest)

def num : P Nat := do
  let t ← tok
  match t.toNat? with
  | some n => pure n
  | none => failure

def rep {α} (n : Nat) (p : P α) : P (List α) :=
  match n with
  | 0 => pure []
  | n + 1 => do let a ← p; let r ← rep n p; pure (a :: r)

/-! ### layout -/
open EnumLayout in
def ty : P Ty := do
  let t ← tok
  if t == "i" then pure .int
  else if t == "v" then pure .vec
  else if t.startsWith "r" then
    match (t.drop 1).toString.toNat? with
    | some n => pure (.ref n)
    | none => failure
  else failure

open EnumLayout in
def tys : P (List Ty) := do let n ← num; rep n ty

open EnumLayout in
def decl : P Decl := do
  let _ ← tok            -- "T"
  let targs ← tys
  let k ← tok
  if k == "S" then do let fs ← tys; pure { targs, body := .struct fs }
  else if k == "C" then do let fs ← tys; pure { targs, body := .closure fs }
  else if k == "E" then do
    let n ← num
    let vs ← rep n tys
    pure { targs, body := .enum vs }
  else failure

open EnumLayout in
def showRepr : VRepr → String
  | .int31 => "I"
  | .unboxed n => s!"U({n})"
  | .boxed ts => s!"B{ts.length}"

open EnumLayout in
def showDef : MDef → String
  | .struct n => s!"S{n}"
  | .enum rs => "E:" ++ ",".intercalate (rs.map showRepr)

open EnumLayout in
def layoutLine (rest : String) : String :=
  match rest.splitOn "##" with
  | [_, m] =>
    let parts := m.splitOn "|"
    match parts with
    | rootsS :: declsS =>
      let roots := (tys.run (words rootsS)).map (·.1)
      let decls := declsS.map fun d => (decl.run (words d)).map (·.1)
      match roots, decls.all Option.isSome with
      | some roots, true =>
        let env : Env := decls.filterMap id
        match demandAll env (2 * env.length + 8) roots with
        | none => "nofuel"
        | some st =>
          let ds := st.defs.reverse
          let idxs := (List.range env.length).filter fun n => (lookupDef st.defs n).isSome
          let _ := ds
          "ok " ++ ";".intercalate (idxs.map fun n =>
            s!"{n}=" ++ (match lookupDef st.defs n with | some d => showDef d | none => "?"))
      | _, _ => "bad-model-line"
    | _ => "bad-model-line"
  | _ => "bad-model-line"

/-! ### tailrec -/
open TailRec in
def nameOf (t : String) : Option Nat :=
  if t.startsWith "p" then (t.drop 1).toString.toNat?
  else if t.startsWith "x" then ((t.drop 1).toString.toNat?).map (· + 1000)
  else none

open TailRec in
def expr : P Expr := do
  let t ← tok
  match t.toInt? with
  | some n => pure (.lit n)
  | none => match nameOf t with
    | some x => pure (.var x)
    | none => failure

def opOf : String → Option Opt.Op
  | "mul" => some .mul | "div" => some .div | "mod" => some .mod | "add" => some .add
  | "sub" => some .sub | "and" => some .land | "or" => some .lor | "shl" => some .shl
  | "shr" => some .shr | "xor" => some .xor | "lt" => some .lt | "le" => some .le
  | "gt" => some .gt | "ge" => some .ge | "eq" => some .eq | "ne" => some .ne
  | _ => none

open TailRec in
partial def body : P Body := do
  let t ← tok
  if t == "R" then do let e ← expr; pure (.ret e)
  else if t == "T" then do let n ← num; let as ← rep n expr; pure (.tail as)
  else if t == "I" then do let c ← expr; let a ← body; let b ← body; pure (.ite c a b)
  else if t == "B" then do
    let x ← tok
    let o ← tok
    let e1 ← expr
    let e2 ← expr
    let k ← body
    match nameOf x, opOf o with
    | some x, some o => pure (.bin x o e1 e2 k)
    | _, _ => failure
  else failure

def parseArgs (s : String) : List (List Int) :=
  (s.splitOn ";").filterMap fun t =>
    let t := t.trimAscii.toString
    if t.isEmpty then none else some ((t.splitOn ",").filterMap fun x => x.trimAscii.toString.toInt?)

def showO : Option Int → String
  | some v => s!"ret:{v}"
  | none => "none"

open TailRec in
def tailrecLine (rest : String) : String :=
  match rest.splitOn "##" with
  | [h, m] =>
    match h.splitOn "|" with
    | [_, argsS, _] =>
      match (do let n ← num; let b ← body; pure (n, b) : P (Nat × Body)).run (words m) with
      | some ((n, b), _) =>
        let params := List.range n
        let fuel := 5000
        match rw b with
        | none => "norewrite " ++ ";".intercalate ((parseArgs argsS).map fun a =>
            showO (runRec Opt.evalTarget params b fuel a))
        | some l =>
          s!"rewritten safe={safeArgs params l} " ++ ";".intercalate ((parseArgs argsS).map fun a =>
            showO (runRec Opt.evalTarget params b fuel a) ++ "/" ++
            showO (TailRec.runLoop Opt.evalTarget true params l fuel a) ++ "/" ++
            showO (TailRec.runLoop Opt.evalTarget false params l fuel a))
      | none => "bad-model-line"
    | _ => "bad-model-line"
  | _ => "bad-model-line"

/-! ### cpe -/
open TailRec in
def arg : P Arg := do
  let t ← tok
  match t.toInt? with
  | some n => pure (.i32 n)
  | none =>
    if t.startsWith "j" then
      match (t.drop 1).toString.toInt? with
      | some n => pure (.i31 n)
      | none => failure
    else match nameOf t with
      | some x => pure (.var x)
      | none => failure

def fnameOf (t : String) : Nat :=
  if t.startsWith "f" then ((t.drop 1).toString.toNat?).getD 998 else 999

open TailRec in
def atom : P Atom := do
  let t ← tok
  if t == "r" then do
    let x ← tok
    match nameOf x with
    | some x => pure (.read x)
    | none => failure
  else if t == "c" then do
    let f ← tok
    let n ← num
    let as ← rep n arg
    pure (.call (fnameOf f) as)
  else failure

open TailRec in
def fnP : P Fn := do
  let _ ← tok   -- "F"
  let f ← tok
  let n ← num
  let cl ← num
  let k ← num
  let atoms ← rep k atom
  pure { name := fnameOf f, params := List.range n, atoms, closureTarget := cl != 0 }

open TailRec in
def showP : PState → String
  | .unused => "U" | .referenced => "R" | .c32 n => s!"C{n}" | .c31 n => s!"J{n}"
  | .cstr n => s!"S{n}" | .unopt => "X"

open TailRec in
def cpeLine (rest : String) : String :=
  match rest.splitOn "##" with
  | [_, m] =>
    match (do let n ← num; rep n fnP : P (List Fn)).run (words m) with
    | some (fs, _) =>
      "ok " ++ ";".intercalate ((TailRec.decide fs).map fun (f, st) =>
        s!"f{f}=" ++ (match st with
          | none => "-"
          | some ps => ",".intercalate (ps.map showP)))
    | none => "bad-model-line"
  | _ => "bad-model-line"

/-! ### cpesem -/
open TailRec CpeSem in
partial def cbody : P CBody := do
  let t ← tok
  if t == "R" then do let e ← expr; pure (.ret e)
  else if t == "I" then do let c ← expr; let a ← cbody; let b ← cbody; pure (.ite c a b)
  else if t == "P" then do let n ← num; let es ← rep n expr; let k ← cbody; pure (.print es k)
  else if t == "C" then do
    let x ← tok
    let n ← num
    let as ← rep n expr
    let k ← cbody
    match nameOf x with
    | some x => pure (.call x as k)
    | none => failure
  else if t == "B" then do
    let x ← tok
    let o ← tok
    let e1 ← expr
    let e2 ← expr
    let k ← cbody
    match nameOf x, opOf o with
    | some x, some o => pure (.bin x o e1 e2 k)
    | _, _ => failure
  else failure

def showRes (rs : List (Option CpeSem.Res)) : String :=
  if rs.any Option.isNone then "none" else
  let lines := rs.flatMap fun r => match r with
    | some (ls, v) => ls.map (fun l => "_".intercalate (l.map toString)) ++ [toString v]
    | none => []
  (if lines.isEmpty then "-" else ",".intercalate lines) ++ "|ret:0"

open TailRec CpeSem in
/-- Applies the model's rewrite for every parameter the decision removes (highest index first). -/
def transform (states : List PState) (params : List Nat) (body : CBody) (calls : List (List Int)) :
    List Nat × CBody × List (List Int) :=
  (List.range states.length).reverse.foldl (fun (acc : List Nat × CBody × List (List Int)) i =>
    let (ps, b, cs) := acc
    match states[i]?, ps[i]? with
    | some PState.unused, some _ => (ps.eraseIdx i, dropArg i b, cs.map (·.eraseIdx i))
    | some (PState.c32 n), some p => (ps.eraseIdx i, dropArg i (substVar p n b), cs.map (·.eraseIdx i))
    | _, _ => acc) (params, body, calls)

open TailRec CpeSem in
def cpesemLine (rest : String) : String :=
  match rest.splitOn "##" with
  | [_, m] =>
    match (do
        let n ← num
        let k ← num
        let calls ← rep k (rep n expr)
        let b ← cbody
        pure (n, calls, b) : P (Nat × List (List Expr) × CBody)).run (words m) with
    | some ((n, calls, b), _) =>
      let params := List.range n
      let callVals : List (List Int) := calls.map fun c => c.map (Expr.eval (fun _ => 0))
      let f0 : Fn := { name := 0, params := [],
                       atoms := calls.map fun c => Atom.call 1 (c.map exprArg) }
      let f1 : Fn := { name := 1, params := params, atoms := atomsOf 1 b }
      let prog := [f0, f1]
      let states := (List.range n).map fun i => paramState prog f1 i i
      let (ps', b', calls') := transform states params b callVals
      let fuel := 200
      let before := callVals.map fun v => run Opt.evalTarget params b fuel v
      let after := calls'.map fun v => run Opt.evalTarget ps' b' fuel v
      "ok " ++ ",".intercalate (states.map showP) ++ " " ++ showRes before ++ " " ++ showRes after
    | none => "bad-model-line"
  | _ => "bad-model-line"

/-! ### tailstmt: the rewrite over full statement lists, compared as program text -/
abbrev PI := StateT (List String × List String) Option   -- (tokens, interned names)

def tokI : PI String := fun (ts, tb) => match ts with
  | [] => none
  | t :: rest => some (t, (rest, tb))

def peekI : PI (Option String) := fun (ts, tb) => some (ts.head?, (ts, tb))

def numI : PI Nat := do
  let t ← tokI
  match t.toNat? with
  | some n => pure n
  | none => failure

def repI {α} (n : Nat) (p : PI α) : PI (List α) :=
  match n with
  | 0 => pure []
  | n + 1 => do let a ← p; let r ← repI n p; pure (a :: r)

/-- `p<i>` is parameter `i`; every other name is interned as `1000 + index`. -/
def internI (t : String) : PI Nat := fun (ts, tb) =>
  if t.startsWith "p" && ((t.drop 1).toString.toNat?).isSome then
    some (((t.drop 1).toString.toNat?).getD 0, (ts, tb))
  else match tb.findIdx? (· == t) with
    | some i => some (1000 + i, (ts, tb))
    | none => some (1000 + tb.length, (ts, tb ++ [t]))

open TailRec in
def exprI : PI Expr := do
  let t ← tokI
  match t.toInt? with
  | some n => pure (.lit n)
  | none => do let x ← internI t; pure (.var x)

open TailRec TailStmt in
partial def blkI : PI Blk := do
  let t ← peekI
  match t with
  | none => pure .done
  | some "}" => pure .done
  | some "ret" => pure .done
  | some "bin" => do
    let _ ← tokI
    let x ← tokI; let x ← internI x
    let o ← tokI
    let e1 ← exprI
    let e2 ← exprI
    let k ← blkI
    match opOf o with
    | some o => pure (.bin x o e1 e2 k)
    | none => failure
  | some "call" => do
    let _ ← tokI
    let _ ← tokI           -- callee: always the function itself
    let n ← numI
    let as ← repI n exprI
    let rc ← tokI
    let rc ← if rc == "_" then pure none else do let x ← internI rc; pure (some x)
    let k ← blkI
    pure (.call as rc k)
  | some "if" => do
    let _ ← tokI
    let c ← exprI
    let _ ← tokI
    let s1 ← blkI
    let _ ← tokI
    let _ ← tokI
    let s2 ← blkI
    let _ ← tokI
    let n ← numI
    let fs ← repI n (do
      let x ← tokI; let x ← internI x
      let e1 ← exprI
      let e2 ← exprI
      pure (x, e1, e2))
    let k ← blkI
    pure (.ifElse c s1 s2 fs k)
  | _ => failure

def opName : Opt.Op → String
  | .mul => "mul" | .div => "div" | .mod => "mod" | .add => "add" | .sub => "sub" | .land => "and"
  | .lor => "or" | .shl => "shl" | .shr => "shr" | .xor => "xor" | .lt => "lt" | .le => "le"
  | .gt => "gt" | .ge => "ge" | .eq => "eq" | .ne => "ne"

def nameStr (tb : List String) (x : Nat) : String :=
  if x ≥ TailStmt.trpBase then s!"_tailrec_param_p{x - TailStmt.trpBase}"
  else if x ≥ TailStmt.tempBase then s!"_t{x - TailStmt.tempBase}"
  else if x ≥ 1000 then tb.getD (x - 1000) "?"
  else s!"p{x}"

open TailRec in
def exprStr (tb : List String) : Expr → String
  | .lit n => toString n
  | .var x => nameStr tb x

open TailRec TailStmt in
def blkToks (tb : List String) : Blk → List String
  | .done => []
  | .bin x op e1 e2 k => s!"bin {nameStr tb x} {opName op} {exprStr tb e1} {exprStr tb e2}" :: blkToks tb k
  | .cast x e k => s!"cast {nameStr tb x} {exprStr tb e}" :: blkToks tb k
  | .call as rc k =>
    (s!"call f0 {as.length}" ++ String.join (as.map fun a => " " ++ exprStr tb a) ++ " " ++
      (match rc with | some r => nameStr tb r | none => "_")) :: blkToks tb k
  | .ifElse c s1 s2 fs k =>
    [s!"if {exprStr tb c}", "{"] ++ blkToks tb s1 ++ ["}", "{"] ++ blkToks tb s2 ++ ["}"] ++
      [toString fs.length ++ String.join (fs.map fun f =>
        s!" {nameStr tb f.1} {exprStr tb f.2.1} {exprStr tb f.2.2}")] ++ blkToks tb k
  | .sif c inv body k =>
    [s!"sif {exprStr tb c} {if inv then 1 else 0}", "{"] ++ blkToks tb body ++ ["}"] ++ blkToks tb k
  | .brk e => [s!"brk {exprStr tb e}"]

open TailRec TailStmt in
def tailstmtLine (rest : String) : String :=
  match (rest.splitOn "##").head? with
  | some h =>
    match h.splitOn "|" with
    | [_, _, prog] =>
      match (do
          let _ ← tokI          -- fn
          let _ ← tokI          -- f0
          let n ← numI
          let b ← blkI
          let _ ← tokI          -- ret
          let r ← exprI
          pure (n, b, r) : PI (Nat × Blk × Expr)).run (words prog, []) with
      | some ((n, b, r), (_, tb)) =>
        let f : TailStmt.Fn := { params := List.range n, body := b, ret := r }
        let argv := match h.splitOn "|" with
          | [_, a, _] => parseArgs a
          | _ => []
        let shape := s!"plain={plain b} good={good n b (asVar r)}"
        match rewriteFn f with
        | none => "norewrite || " ++ ";".intercalate (argv.map fun a =>
            showO (TailStmt.runRec Opt.evalTarget f 160 a)) ++ " || " ++ shape
        | some lf =>
          let (body, loopVals) := lf.emitted
          let vars := lf.params.zip loopVals
          let toks := ["fn f0 ["] ++ lf.params.map (fun p => nameStr tb (trp p)) ++ ["]"] ++
            [s!"while {vars.length}" ++ String.join (vars.map fun v =>
              s!" {nameStr tb v.1} {nameStr tb (trp v.1)} {exprStr tb v.2}"), "{"] ++
            blkToks tb body ++ ["}", (match lf.breakCollector with | some x => nameStr tb x | none => "_")] ++
            [s!"ret {exprStr tb lf.ret} end"]
          "prog " ++ " ".intercalate toks ++ " || " ++ ";".intercalate (argv.map fun a =>
            showO (TailStmt.runRec Opt.evalTarget f 160 a) ++ "/" ++
            showO (TailStmt.runLoop Opt.evalTarget lf 160 a)) ++ " || " ++ shape
      | none => "bad-model-line"
    | _ => "bad-model-line"
  | none => "bad-model-line"

/-! ### cpeprog: several mutually calling functions -/
open TailRec CpeProg in
partial def pbody : P PBody := do
  let t ← tok
  if t == "R" then do let e ← expr; pure (.ret e)
  else if t == "I" then do let c ← expr; let a ← pbody; let b ← pbody; pure (.ite c a b)
  else if t == "P" then do let n ← num; let es ← rep n expr; let k ← pbody; pure (.print es k)
  else if t == "C" then do
    let x ← tok
    let g ← tok
    let n ← num
    let as ← rep n expr
    let k ← pbody
    match nameOf x with
    | some x => pure (.call x (fnameOf g) as k)
    | none => failure
  else if t == "B" then do
    let x ← tok
    let o ← tok
    let e1 ← expr
    let e2 ← expr
    let k ← pbody
    match nameOf x, opOf o with
    | some x, some o => pure (.bin x o e1 e2 k)
    | _, _ => failure
  else failure

open TailRec CpeProg in
def pfn : P PFn := do
  let _ ← tok   -- "F"
  let f ← tok
  let n ← num
  let b ← pbody
  pure { name := fnameOf f, params := List.range n, body := b }

open TailRec CpeProg in
/-- The model's rewrite for every parameter the decision removes (per function, highest index first). -/
def transformProg (prog : Prog) (states : List (Nat × List PState)) : Prog :=
  states.foldl (fun pr (gs : Nat × List PState) =>
    let es : List Elim := (List.range gs.2.length).reverse.filterMap fun i =>
      match gs.2[i]? with
      | some PState.unused => some (Elim.unused i)
      | some (PState.c32 n) => some (Elim.const i n)
      | _ => none
    match lookup pr gs.1 with
    | some gfn => elimMany gs.1 es gfn.params pr       -- the sweep proved in `cpe_prog_mixed_sweep_preserves`
    | none => pr) prog

open TailRec CpeProg in
def cpeprogLine (rest : String) : String :=
  match rest.splitOn "##" with
  | [_, m] =>
    match (do let n ← num; rep n pfn : P (List PFn)).run (words m) with
    | some (prog, _) =>
      let summ := prog.map CpeProg.fnOf
      let states := prog.map fun fn =>
        (fn.name, (List.range fn.params.length).map fun i => paramState summ (CpeProg.fnOf fn) i i)
      let prog' := transformProg prog states
      let fuel := 60
      let showR := fun (r : Option CpeSem.Res) => match r with
        | none => "none"
        | some (ls, _) =>
          (if ls.isEmpty then "-" else ",".intercalate (ls.map fun l => "_".intercalate (l.map toString))) ++ "|ret:0"
      "ok " ++ ";".intercalate (states.map fun (f, ps) => s!"f{f}=" ++ ",".intercalate (ps.map showP)) ++ " " ++
        showR (CpeProg.run Opt.evalTarget prog 0 fuel []) ++ " " ++ showR (CpeProg.run Opt.evalTarget prog' 0 fuel [])
    | none => "bad-model-line"
  | _ => "bad-model-line"

/-! ### lirloop: loop-variable update emitted by LIR lowering -/
open TailRec in
def lirloopLine (rest : String) : String :=
  match rest.splitOn "##" with
  | [_, m] =>
    -- model line: n  name*n  loopvalue*n   (names are loop variables `p<i>`/`x<k>`)
    match (do
        let n ← num
        let names ← rep n tok
        let vals ← rep n tok
        pure (names, vals) : P (List String × List String)).run (words m) with
    | some ((names, vals), _) =>
      let nm := names.filterMap nameOf
      let ex : List Expr := vals.map fun t => match t.toInt? with
        | some k => .lit k
        | none => match nameOf t with | some x => .var x | none => .lit 0
      let temps := (List.range nm.length).map (· + 500000)
      let (casts, lv) := lowerLoopUpdate nm ex temps
      let showN := fun (x : Nat) =>
        if x ≥ 500000 then s!"_t{x - 500000}" else if x ≥ 1000 then s!"x{x - 1000}" else s!"p{x}"
      let showE := fun (e : Expr) => match e with | .lit k => toString k | .var x => showN x
      "vars " ++ " ".intercalate ((nm.zip lv).map fun (a, b) => showN a ++ "<-" ++ showE b) ++
        " | casts " ++ " ".intercalate (casts.map fun (a, b) => showN a ++ "<-" ++ showE b)
    | none => "bad-model-line"
  | _ => "bad-model-line"

/-! ### vecrt: op histories through the Vec runtime model -/
open VecRt in
/-- ops: `E` | `W c` | `O x` | `R m` | `P x` | `Q` (pop, print) | `G i` (get, print) | `S i x` |
`L` (print length) | `C` (print capacity). Answer: printed values, then `ok` / the panic / `trap`. -/
partial def vecrtRun (v : Vec) (out : List String) : List String → String
  | [] => ",".intercalate out ++ "|ok"
  | "E" :: r => vecrtRun empty out r
  | "W" :: c :: r => vecrtRun (withCapacity c.toNat!) out r
  | "O" :: x :: r => vecrtRun (ofV (x.toInt?.getD 0)) out r
  | "R" :: m :: r => vecrtRun (reserve v m.toNat!) out r
  | "P" :: x :: r => vecrtRun (push v (x.toInt?.getD 0)) out r
  | "L" :: r => vecrtRun v (out ++ [toString v.len]) r
  | "C" :: r => vecrtRun v (out ++ [toString (capacity v)]) r
  | "Q" :: r =>
    match pop v with
    | .ok (x, v') => vecrtRun v' (out ++ [toString x]) r
    | .panicPop => ",".intercalate out ++ "|panic:pop from empty Vec"
    | .panicOob => ",".intercalate out ++ "|panic:Vec index out of bounds"
    | .trap => ",".intercalate out ++ "|trap"
  | "G" :: i :: r =>
    match VecRt.get v (i.toInt?.getD 0) with
    | .ok x => vecrtRun v (out ++ [toString x]) r
    | .panicOob => ",".intercalate out ++ "|panic:Vec index out of bounds"
    | .panicPop => ",".intercalate out ++ "|panic:pop from empty Vec"
    | .trap => ",".intercalate out ++ "|trap"
  | "S" :: i :: x :: r =>
    match VecRt.set v (i.toInt?.getD 0) (x.toInt?.getD 0) with
    | .ok v' => vecrtRun v' out r
    | .panicOob => ",".intercalate out ++ "|panic:Vec index out of bounds"
    | .panicPop => ",".intercalate out ++ "|panic:pop from empty Vec"
    | .trap => ",".intercalate out ++ "|trap"
  | _ => "bad-model-line"

/-! ### dataseg: the WAT literal of the string data segment -/
def isInfix (xs ys : List Nat) : Bool :=
  (List.range (ys.length + 1 - xs.length)).any fun i => (ys.drop i).take xs.length == xs

open DataSeg in
/-- `dataseg <hex of the literal's text> <hex of constant>*`: assemble the text, print the bytes again
(must give the same text) and look for every constant's bytes in the assembled segment. -/
def datasegLine (rest : String) : String :=
  match words rest with
  | textHex :: consts =>
    match String.fromUTF8? (ByteArray.mk (bytesOfHex textHex).toArray) with
    | none => "bad-text"
    | some text =>
      match assemble text.toList with
      | none => "unassemblable"
      | some bs =>
        let back := printBytes bs
        let found := consts.filter fun c => isInfix ((bytesOfHex c).map (·.toNat)) bs
        s!"roundtrip={back == text.toList} bytes={bs.length} found={found.length}/{consts.length}"
  | [] => "bad-model-line"

/-! ### launcher: names called by the launchers of the entry points -/
def launcherLine (rest : String) : String :=
  let entries : List Launcher.Mod := (words rest).map fun e => (e.splitOn ".").map String.toList
  " ".intercalate ((Launcher.launchers entries).map fun (_, n) => String.ofList n)

def step (_ : Unit) (line : String) : Unit × String :=
  let line := line.trimAscii.toString
  let (k, rest) := match line.splitOn " " with
    | k :: r => (k, " ".intercalate r)
    | [] => ("", "")
  ((), if k == "layout" then layoutLine rest
       else if k == "tailrec" then tailrecLine rest
       else if k == "cpe" then cpeLine rest
       else if k == "cpesem" then cpesemLine rest
       else if k == "tailstmt" then tailstmtLine rest
       else if k == "cpeprog" then cpeprogLine rest
       else if k == "lirloop" then lirloopLine rest
       else if k == "dataseg" then datasegLine rest
       else if k == "launcher" then launcherLine rest
       else if k == "vecrt" then vecrtRun VecRt.empty [] (words rest)
       else "bad-line")

end Driver.C01

def main (_args : List String) : IO UInt32 := do
  Driver.runLoop () Driver.C01.step
  return 0
